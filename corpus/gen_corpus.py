#!/usr/bin/env python3
"""Generate the corpus workspace: ascent programs (Rust source) + spec.json (their logical content).

Both come from one description per program (corpus/programs.py): the program text in ascent syntax. The spec is obtained by a
small independent parser of the *surface* rule language (clauses, conditions, generators, aggregation, negation) - it knows
nothing about indices, join plans, SCCs or versions, so it is an oracle for what the generated code must mean without
re-implementing any decision of the macro. Sugared forms the parser does not expand (disjunctions, in-program macros) are
validated through their hand-desugared twins instead."""
import json, os, re, sys

HERE = os.path.dirname(os.path.abspath(__file__))
REPO = os.environ.get('ASCENT_REPO', '/repo')
sys.path.insert(0, HERE)


def split_top(s, sep=','):
    """split on sep at nesting depth 0 (parens, brackets, braces; `|` inside closures is not supported in the corpus)"""
    out, depth, cur = [], 0, ''
    i = 0
    while i < len(s):
        ch = s[i]
        if ch in '([{':
            depth += 1
        elif ch in ')]}':
            depth -= 1
        if depth == 0 and s.startswith(sep, i):
            out.append(cur); cur = ''; i += len(sep); continue
        cur += ch
        i += 1
    if cur.strip() or out:
        out.append(cur)
    return [x.strip() for x in out]


IDENT = re.compile(r'^[A-Za-z_][A-Za-z0-9_]*$')
INT = re.compile(r'^-?[0-9]+(_?[a-z0-9]+)?$')


def parse_arg(a):
    a = a.strip()
    if a == '_':
        return {'w': True}
    if a.startswith('?'):
        return {'pat': a[1:].strip()}
    if IDENT.match(a) and a not in ('true', 'false'):
        return {'v': a}
    if INT.match(a) or a in ('true', 'false'):
        return {'c': a}
    return {'e': a}


def parse_clause(txt):
    m = re.match(r'^([A-Za-z_][A-Za-z0-9_]*)\s*\((.*)\)$', txt.strip(), re.S)
    if not m:
        raise ValueError('not a clause: %r' % txt)
    return m.group(1), [parse_arg(a) for a in split_top(m.group(2))] if m.group(2).strip() else []


def parse_body_item(txt):
    t = txt.strip()
    if t.startswith('if let '):
        pat, expr = t[len('if let '):].split('=', 1)
        return {'t': 'iflet', 'p': pat.strip(), 'e': expr.strip()}
    if t.startswith('if '):
        return {'t': 'if', 'e': t[3:].strip()}
    if t.startswith('let '):
        pat, expr = t[4:].split('=', 1)
        return {'t': 'let', 'p': pat.strip(), 'e': expr.strip()}
    if t.startswith('for '):
        m = re.match(r'^for\s+(.*?)\s+in\s+(.*)$', t, re.S)
        return {'t': 'for', 'p': m.group(1).strip(), 'e': m.group(2).strip()}
    if t.startswith('agg '):
        # agg PAT = AGGREGATOR(bound args) in rel(args)   - the aggregator may itself be a call: (percentile(50.0))(v)
        eq = t.index('=')
        pat = t[4:eq].strip()
        rest = t[eq + 1:]
        # last top-level ` in `
        depth = 0
        cut = None
        for i in range(len(rest)):
            ch = rest[i]
            if ch in '([{':
                depth += 1
            elif ch in ')]}':
                depth -= 1
            elif depth == 0 and rest.startswith(' in ', i):
                cut = i
        call, cl = rest[:cut].strip(), rest[cut + 4:].strip()
        assert call.endswith(')')
        depth = 0
        start = None
        for i in range(len(call) - 1, -1, -1):
            if call[i] == ')':
                depth += 1
            elif call[i] == '(':
                depth -= 1
                if depth == 0:
                    start = i
                    break
        aggf, bound = call[:start].strip(), call[start + 1:-1]
        rel, args = parse_clause(cl)
        return {'t': 'agg', 'pat': pat, 'agg': aggf, 'bound': [b.strip() for b in split_top(bound)] if bound.strip() else [],
                'rel': rel, 'args': args}
    if t.startswith('!'):
        rel, args = parse_clause(t[1:])
        return {'t': 'neg', 'rel': rel, 'args': args}
    if t.startswith('(') or re.match(r'^[A-Za-z_][A-Za-z0-9_]*!\s*\(', t):
        raise ValueError('sugar')
    # clause, possibly followed by attached conditions WITHOUT a comma:  foo(x, y) if x > y if let Some(z) = w
    depth = 0
    end = None
    for i, ch in enumerate(t):
        if ch == '(':
            depth += 1
        elif ch == ')':
            depth -= 1
            if depth == 0:
                end = i
                break
    rel, args = parse_clause(t[:end + 1])
    rest = t[end + 1:].strip()
    conds = []
    while rest:
        m = re.match(r'^(if let|if|let)\b', rest)
        if not m:
            raise ValueError('cannot parse attached condition %r' % rest)
        # up to the next top-level keyword
        depth = 0
        j = len(rest)
        k = m.end()
        while k < len(rest):
            ch = rest[k]
            if ch in '([{':
                depth += 1
            elif ch in ')]}':
                depth -= 1
            elif depth == 0 and re.match(r'\b(if|let)\b', rest[k:]) and rest[k - 1] == ' ':
                j = k
                break
            k += 1
        conds.append(parse_body_item(rest[:j].strip()))
        rest = rest[j:].strip()
    return {'t': 'clause', 'rel': rel, 'args': args, 'conds': conds}


def parse_rule(txt):
    """`heads <-- body` or `heads` (fact). A condition written after a clause WITHOUT a comma is attached to that clause (it moves
    with the clause when the macro reorders a join); comma separated conditions are stand-alone body items."""
    txt = txt.strip().rstrip(';')
    if '<--' in txt:
        h, b = txt.split('<--', 1)
    else:
        h, b = txt, ''
    heads = []
    for hc in split_top(h):
        rel, args = parse_clause(hc)
        heads.append({'rel': rel, 'args': [a.get('v') or a.get('c') or a.get('e') for a in args], 'argspec': args})
    body = []
    for it in split_top(b) if b.strip() else []:
        body.append(parse_body_item(it))
    return {'heads': heads, 'body': body, 'text': txt}


def parse_decl(txt):
    t = txt.strip().rstrip(';')
    ds = None
    m = re.match(r'^#\[ds\((.*?)\)\]\s*(.*)$', t, re.S)
    if m:
        ds, t = m.group(1).strip(), m.group(2)
    init = None
    if '=' in t and not t.startswith('#'):
        t, init = t.split('=', 1)
        init = init.strip()
    m = re.match(r'^(relation|lattice)\s+([A-Za-z_][A-Za-z0-9_]*)\s*\((.*)\)\s*$', t.strip(), re.S)
    if not m:
        raise ValueError('bad decl %r' % txt)
    return {'kind': m.group(1), 'name': m.group(2), 'types': split_top(m.group(3)), 'ds': ds, 'init': init}


def build_spec(p):
    """logical content of a program (None for rules the surface parser does not expand)"""
    rels = {}
    for d in p['decls']:
        dd = parse_decl(d)
        rels[dd['name']] = dd          # a later declaration wins
    rules = []
    sugar = False
    for r in p['rules']:
        try:
            rules.append(parse_rule(r))
        except ValueError:
            sugar = True
            rules.append({'text': r, 'sugar': True})
    return {'relations': rels, 'rules': rules, 'has_sugar': sugar or bool(p.get('macros')) or bool(p.get('raw')) or p.get('body') is not None}


def render(p):
    """Rust module text of one program"""
    name = p['name']
    macro = p['macro']
    attrs = ''.join('   #![%s]\n' % a for a in p.get('attrs', []))
    sig = p.get('sig', 'pub struct P;')
    body = []
    for m in p.get('macros', []):
        body.append('   ' + m)
    for d in p['decls']:
        body.append('   ' + (d if d.rstrip().endswith(';') else d + ';'))
    for r in p['rules']:
        body.append('   ' + (r if r.rstrip().endswith(';') else r + ';'))
    if p.get('raw'):
        body.append(p['raw'])
    prog_body = '\n'.join(body)
    if p.get('body') is not None:
        prog_body = '\n'.join('   ' + l for l in p['body'] if l.strip() != 'pub struct P;')
    uses = p.get('uses', '')
    pre = p.get('pre', '')
    out = ['pub mod %s {' % name, '   #![allow(warnings)]', '   use ascent::*;', '   use ascent::aggregators::*;']
    if uses:
        out.append('   ' + uses)
    if pre:
        out.append(pre)
    if macro in ('ascent', 'ascent_par'):
        out.append('   %s! {\n%s   %s\n%s\n   }' % (macro, attrs, sig, prog_body))
    else:
        params = p.get('params', '')
        out.append('   pub fn run_it(%s) -> usize {\n      let __res = %s! {\n%s%s\n      };\n      __res.relation_sizes_summary().len()\n   }' % (
            params, macro, attrs, ('   ' + sig + '\n' if p.get('sig') else '') + prog_body))
    out.append('}')
    return '\n'.join(out)


def main():
    out_dir = sys.argv[1]
    import programs
    os.makedirs(out_dir, exist_ok=True)
    crates = {}
    for p in programs.PROGRAMS:
        crates.setdefault(p.get('crate', 'corpus_core'), []).append(p)
    members = []
    spec_all = {}
    for crate, progs in sorted(crates.items()):
        cdir = os.path.join(out_dir, crate)
        os.makedirs(os.path.join(cdir, 'src'), exist_ok=True)
        members.append(crate)
        with open(os.path.join(cdir, 'Cargo.toml'), 'w') as f:
            f.write('[package]\nname = "%s"\nversion = "0.1.0"\nedition = "2021"\n\n[dependencies]\n'
                    'ascent = { path = "%s/ascent" }\nascent-byods-rels = { path = "%s/byods/ascent-byods-rels" }\n' % (crate, REPO, REPO))
        src = ['#![allow(warnings)]', '// GENERATED by /verif/corpus/gen_corpus.py - do not edit']
        for p in progs:
            src.append(render(p))
            sp = build_spec(p)
            sp.update({'name': p['name'], 'crate': crate, 'macro': p['macro'], 'attrs': p.get('attrs', []),
                       'par': p['macro'] in ('ascent_par', 'ascent_run_par'), 'tags': p.get('tags', []),
                       'twin': p.get('twin'), 'tier': p.get('tier', 'quick')})
            spec_all[crate + '::' + p['name']] = sp
        with open(os.path.join(cdir, 'src', 'lib.rs'), 'w') as f:
            f.write('\n\n'.join(src) + '\n')
    with open(os.path.join(out_dir, 'Cargo.toml'), 'w') as f:
        f.write('[workspace]\nresolver = "2"\nmembers = [%s]\n' % ', '.join('"%s"' % m for m in members))
    with open(os.path.join(out_dir, 'spec.json'), 'w') as f:
        json.dump(spec_all, f, indent=1)
    print('generated %d programs in %d crates' % (len(programs.PROGRAMS), len(members)))


if __name__ == '__main__':
    main()
