"""The corpus: descriptions of ascent programs (program text in ascent syntax, one string per declaration / rule).
gen_corpus.py renders them to Rust and derives spec.json from the same strings."""

PROGRAMS = []


def P(name, decls, rules, macro='ascent', **kw):
    d = {'name': name, 'macro': macro, 'decls': list(decls), 'rules': list(rules)}
    d.update(kw)
    PROGRAMS.append(d)
    return d


def both(name, decls, rules, **kw):
    """serial and parallel variant of the same program"""
    P(name, decls, rules, macro='ascent', **kw)
    kw2 = dict(kw)
    P(name + '_par', decls, rules, macro='ascent_par', **kw2)


E2 = 'relation edge(i32, i32)'

# ---------------------------------------------------------------- recursion shapes / semi-naive variants
both('tc_lin', [E2, 'relation path(i32, i32)'],
     ['path(x, y) <-- edge(x, y)', 'path(x, z) <-- edge(x, y), path(y, z)'], tags=['rec1'])
both('tc_nonlin', [E2, 'relation path(i32, i32)'],
     ['path(x, y) <-- edge(x, y)', 'path(x, z) <-- path(x, y), path(y, z)'], tags=['rec2'])
both('rec3', [E2, 'relation r(i32, i32)'],
     ['r(x, y) <-- edge(x, y)', 'r(x, w) <-- r(x, y), r(y, z), r(z, w)'], tags=['rec3'])
both('rec4', [E2, 'relation r(i32, i32)'],
     ['r(x, y) <-- edge(x, y)', 'r(x, v) <-- r(x, y), r(y, z), r(z, w), r(w, v)'], tags=['rec4'])
both('mutual', [E2, 'relation a(i32)', 'relation b(i32)', 'relation s(i32)'],
     ['a(x) <-- s(x)', 'b(y) <-- a(x), edge(x, y)', 'a(y) <-- b(x), edge(x, y)'], tags=['mutual'])
both('rec_mixed', [E2, 'relation r(i32, i32)', 'relation q(i32, i32)'],
     ['r(x, y) <-- edge(x, y)', 'q(x, z) <-- r(x, y), edge(y, z), r(z, x)', 'r(x, y) <-- q(y, x)'], tags=['rec2', 'mutual'])

# ---------------------------------------------------------------- facts, generators, constants, expressions
both('facts', ['relation r(i32, i32)', 'relation n(i32)'],
     ['r(1, 2)', 'r(3, 4)', 'n(x + 1) <-- for x in 0..10', 'n(*y) <-- r(x, y)'], tags=['facts'])
both('consts', ['relation p(i32, i32)', 'relation s(i32, i32)', 'relation q(i32)'],
     ['q(x) <-- p(x, 3)', 'q(x) <-- p(x, y), s(y + 1, x)', 'q(x) <-- p(1, x), s(x, 2)', 'q(x + y) <-- p(x, y)'], tags=['consts'])
both('repeated', ['relation p(i32, i32)', 'relation foo(i32, i32)', 'relation bar(i32, i32)', 'relation q(i32)', 'relation res(i32, i32)'],
     ['q(x) <-- p(x, x)', 'res(x, y) <-- foo(x, y), bar(y, y)', 'q(x) <-- foo(x, y), bar(x, x)', 'q(x) <-- bar(x, x), foo(x, y)'],
     tags=['repeated'])
both('wild', ['relation p(i32, i32, i32)', 'relation q(i32)', 'relation k(i32)'],
     ['q(x) <-- p(x, _, _)', 'q(x) <-- p(_, x, _), k(x)', 'q(y) <-- k(x), p(x, _, y)'], tags=['wild'])
both('conds', ['relation p(i32, i32)', 'relation o(Option<i32>, i32)', 'relation q(i32)', 'relation foo(i32, i32)', 'relation bar(i32, i32)',
               'relation res(i32, i32)'],
     ['q(x) <-- p(x, y), if x < y',
      'q(x) <-- p(x, y), let z = x + y, if z > 3',
      'q(*v) <-- o(w, x), if let Some(v) = w',
      'res(x, y) <-- let z = 7, foo(x, y), bar(y, z)',
      'res(x, z) <-- for z in 0..3, foo(x, y), bar(y, z)',
      'res(x, y) <-- foo(x, y), if x != y, bar(y, z), if z > x',
      'res(x, y) <-- if true, foo(x, y)',
      'res(x, y) <-- foo(x, y) if x != y, bar(y, z) if z > x',
      'res(x, y) <-- foo(x, y) let s = x + y if s > 2, bar(y, z)',
      'q(*v) <-- p(x, y), o(w, y) if let Some(v) = w',
      'res(x, w) <-- foo(x, y), for w in 0..*y, if w > 1'], tags=['conds'])
both('agg_then_clause', ['relation g(i32, i32, i32)', 'relation k(i32)', 'relation p(i32, i32)', 'relation o(i32, i32)', 'relation o2(i32, usize)'],
     ['o(x, m) <-- k(x), agg m = max(v) in g(x, _, v), p(m, x)', 'o(x, m) <-- agg m = min(v) in g(_, _, v), k(x), p(m, x)',
      'o(x, y) <-- k(x), agg m = max(v) in g(x, _, v), p(m, y), p(y, x)', 'o2(x, c) <-- k(x), agg c = count() in g(x, _, _), p(x, y), if *y > 0, let z = c + 1, if z > 1'],
     tags=['agg', 'agg_then_clause'])
both('expr_cols', ['relation foo(i32, i32)', 'relation bar(i32, i32)', 'relation both2(i32, i32)'],
     ['both2(x, y) <-- foo(x, x + 1), bar(y, y + 1)', 'both2(x, y) <-- foo(x, x + 1), bar(y, y + 1), foo(y, y - 1)', 'both2(x, y) <-- foo(x, x), bar(y, y), foo(x, x + 0)'],
     tags=['repeated'])
# an expression argument that uses a variable of its own clause inside a macro invocation
both('macro_arg', ['relation baz(i32, Vec<i32>)', 'relation r(i32)', 'relation k(i32)'],
     ['r(x) <-- baz(x, vec![*x])', 'r(x) <-- k(y), baz(x, vec![*x + *y, *y])', 'r(y) <-- k(y), baz(_, vec![*y])'], tags=['repeated'])
both('fresh_names', ['relation foo(i32, i32)', 'relation bar(i32)', 'relation out(i32, i32)'],
     ['out(x, x_) <-- foo(x, x), bar(x_)', 'out(a, a_1) <-- foo(a, a), foo(a, a), bar(a_1)', 'out(w, expr_replaced_) <-- foo(w, w + 1), bar(expr_replaced_)'], tags=['repeated'])
both('attached_let', ['relation foo(i32, i32)', 'relation bar(i32, i32)', 'relation res(i32, i32)'],
     ['res(x, y) <-- foo(x, a) let k = a + 1, bar(k, y)', 'res(x, y) <-- foo(x, a) let k = a + 1 if k > 3, bar(y, k)',
      'res(x, y) <-- foo(x, a) if let Some(k) = Some(a + 1), bar(k, y)'], tags=['conds'])
P('attached_let_run', ['relation foo(i32, i32)', 'relation bar(i32, i32)', 'relation res(i32, i32)'],
  ['foo(*a, *b) <-- for (a, b) in input.iter()', 'res(x, y) <-- foo(x, a) let k = a + 1, bar(k, y)'],
  macro='ascent_run', params='input: &[(i32, i32)], k: i32', tags=['conds', 'run'])
both('pat_same_clause', ['relation foo(Option<i32>, i32)', 'relation bar(i32, Option<i32>, i32)', 'relation out(i32)', 'relation out3(i32, i32)'],
     ['out(*y) <-- foo(?Some(y), y + 1)', 'out(*y) <-- foo(?Some(y), y)', 'out3(x, *y) <-- bar(x, ?Some(y), x + y)', 'out3(x, *y) <-- bar(x, ?Some(y), y), foo(?Some(z), x) if z > y'],
     tags=['patarg', 'repeated'])
both('at_pat', ['relation item(Option<i32>)', 'relation val(i32, i32)', 'relation hit(Option<i32>, i32)', 'relation o(Option<i32>, i32)'],
     ['hit(whole.clone(), z) <-- item(?whole @ Some(y)), val(y, z)', 'hit(w.clone(), z) <-- o(w, x), if let all @ Some(y) = w, val(y, z), if all.is_some()'],
     tags=['patarg', 'conds'])
both('paren_pat', ['relation foo(i32)', 'relation bar(i32, i32)', 'relation o(Option<i32>, i32)', 'relation out(i32, i32)'],
     ['out(y, z) <-- foo(x), let (y) = x + 1, bar(y, z)', 'out(y, z) <-- foo(x), for (y) in 0..3, bar(y, z)',
      'out(*v, z) <-- o(w, x), if let (Some(v)) = w, bar(v, z)'], tags=['conds'])
both('patarg', ['relation o(Option<i32>, i32)', 'relation q(i32)', 'relation k(i32)'],
     ['q(*v) <-- o(?Some(v), _)', 'q(*v) <-- k(x), o(?Some(v), x)'], tags=['patarg'])
both('multihead', [E2, 'relation a(i32)', 'relation b(i32, i32)'],
     ['a(x), b(y, x), a(y) <-- edge(x, y)', 'a(x), b(x, x) <-- a(y), edge(y, x)'], tags=['multihead'])
both('join3', [E2, 'relation c(i32, i32)', 'relation d(i32, i32)', 'relation out(i32, i32)', 'relation out5(i32)'],
     ['out(x, w) <-- edge(x, y), c(y, z), d(z, w)',
      'out5(x) <-- edge(x, y), c(y, z), d(z, w), c(w, v), edge(v, x)',
      'out(x, y) <-- edge(x, y), c(x, 5)'], tags=['join3'])

# ---------------------------------------------------------------- strata: aggregation and negation
P('agg', [E2, 'relation node(i32)', 'relation cnt(i32, usize)', 'relation total(usize)', 'relation mn(i32, i32)', 'relation iso(i32)',
          'relation sm(i32)', 'relation reach(i32, i32)'],
  ['node(x) <-- edge(x, _)', 'node(y) <-- edge(_, y)',
   'reach(x, y) <-- edge(x, y)', 'reach(x, z) <-- reach(x, y), edge(y, z)',
   'cnt(x, c) <-- node(x), agg c = count() in reach(x, _)',
   'total(c) <-- agg c = count() in reach(_, _)',
   'mn(x, m) <-- node(x), agg m = min(y) in reach(x, y)',
   'sm(s) <-- agg s = sum(y) in edge(_, y)',
   'iso(x) <-- node(x), !reach(x, x)',
   'iso(x) <-- node(x), node(y), edge(y, x), !reach(x, y)'], tags=['agg', 'neg'])
P('agg_par', [E2, 'relation node(i32)', 'relation cnt(i32, usize)', 'relation total(usize)', 'relation mn(i32, i32)', 'relation iso(i32)',
              'relation reach(i32, i32)'],
  ['node(x) <-- edge(x, _)', 'node(y) <-- edge(_, y)',
   'reach(x, y) <-- edge(x, y)', 'reach(x, z) <-- reach(x, y), edge(y, z)',
   'cnt(x, c) <-- node(x), agg c = count() in reach(x, _)',
   'total(c) <-- agg c = count() in reach(_, _)',
   'mn(x, m) <-- node(x), agg m = min(y) in reach(x, y)',
   'iso(x) <-- node(x), !reach(x, x)'], macro='ascent_par', tags=['agg', 'neg'])
P('strata', ['relation a(i32)', 'relation b(i32)', 'relation c(i32)', 'relation d(i32, usize)'],
  ['b(x) <-- a(x), !c(x)', 'd(x, n) <-- b(x), agg n = count() in b(_)', 'a(x + 1) <-- a(x), if *x < 5'], tags=['agg', 'neg'])

# ---------------------------------------------------------------- lattices
LAT = ['relation edge(i32, i32, u32)', 'lattice sp(i32, i32, Dual<u32>)']
both('lat_sp', LAT,
     ['sp(x, y, Dual(*w)) <-- edge(x, y, w)', 'sp(x, z, Dual(w + l.0)) <-- edge(x, y, w), sp(y, z, l)'], tags=['lattice'])
both('lat_misc', ['relation inp(i32, i32)', 'lattice mx(i32)', 'lattice best(i32, Option<i32>)', 'lattice pr(i32, i32, (i32, i32))',
                  'relation big(i32)', 'relation seen(i32, i32)'],
     ['mx(*y) <-- inp(_, y)', 'best(x, Some(*y)) <-- inp(x, y)', 'pr(x, y, (*x, *y)) <-- inp(x, y)',
      'big(*x) <-- best(x, v), if v.is_some()', 'seen(x, y) <-- pr(x, y, _)', 'mx(x + 1) <-- mx(x), if *x < 10'], tags=['lattice'])
P('lat_allbound', ['relation inp(i32, i32)', 'lattice best(i32, i32)', 'relation probe(i32, i32)', 'relation hit(i32, i32)'],
  ['best(x, *y) <-- inp(x, y)', 'hit(x, v) <-- probe(x, v), best(x, v)'], tags=['lattice', 'lat_allbound'])
both('lat_top', ['relation src(i32)', 'relation edge(i32, i32)', 'lattice marked(i32, bool)', 'relation live(i32, i32)', 'relation asg(i32, i64)',
                 'lattice val(i32, ConstPropagation<i64>)', 'relation nonconst(i32)'],
     ['marked(x, true) <-- src(x)', 'marked(y, true) <-- marked(x, true), edge(x, y)', 'live(x, y) <-- edge(x, y), marked(x, true), marked(y, true)',
      'val(x, ConstPropagation::Constant(*c)) <-- asg(x, c)', 'nonconst(x) <-- val(x, ConstPropagation::Top)'],
     uses='use ascent::lattice::constant_propagation::ConstPropagation;', tags=['lattice', 'lat_top'])
P('lat_neg_par', ['relation inp(i32, i32)', 'lattice best(i32, i32)', 'relation cand(i32, i32)', 'relation miss(i32, i32)', 'relation n_exact(i32, usize)'],
  ['best(x, *y) <-- inp(x, y)', 'miss(x, v) <-- cand(x, v), !best(x, v)', 'n_exact(x, c) <-- cand(x, v), agg c = count() in best(x, v)'],
  macro='ascent_par', tags=['lattice', 'neg', 'agg', 'lat_allbound'])
P('lat_allbound_par', ['relation inp(i32, i32)', 'lattice best(i32, i32)', 'relation probe(i32, i32)', 'relation hit(i32, i32)'],
  ['best(x, *y) <-- inp(x, y)', 'hit(x, v) <-- probe(x, v), best(x, v)'], macro='ascent_par', tags=['lattice', 'lat_allbound'])
P('lat_neg', ['relation inp(i32, i32)', 'lattice best(i32, i32)', 'relation cand(i32, i32)', 'relation miss(i32, i32)', 'relation n_exact(i32, usize)'],
  ['best(x, *y) <-- inp(x, y)', 'miss(x, v) <-- cand(x, v), !best(x, v)', 'n_exact(x, c) <-- cand(x, v), agg c = count() in best(x, v)'], tags=['lattice', 'neg', 'agg', 'lat_allbound'])
# .. and the same with the value written as a non-variable expression (a literal, a constructor applied to a variable)
both('lat_neg_expr', ['lattice l(i32, i32)', 'lattice d(i32, ascent::Dual<i32>)', 'relation s(i32, i32)', 'relation e(i32, i32)', 'relation miss(i32)', 'relation cnt(i32, usize)', 'relation near(i32)'],
     ['l(x, *v) <-- s(x, v)', 'd(x, ascent::Dual(*v)) <-- s(x, v)',
      'miss(x) <-- e(x, _), !l(x, 3)',
      'miss(x) <-- e(x, v), !d(x, ascent::Dual(*v))',
      'cnt(x, c) <-- e(x, v), agg c = count() in l(x, *v + 1)',
      'near(x) <-- e(x, _), agg c = count() in d(_, ascent::Dual(2)), if c > 0'], tags=['lattice', 'neg', 'agg', 'lat_neg'])
# an aggregator given as a parenthesised expression: a closure, a parameterised aggregator
both('agg_closure', ['relation foo(i32, i32)', 'relation k(i32)', 'relation o(i32, i32)', 'relation q(i32, i32)'],
     ['o(x, m) <-- k(x), agg m = (|it| max(it))(v) in foo(x, v)', 'q(x, m) <-- k(x), agg m = (percentile(50.0))(v) in foo(x, v)'],
     tags=['agg'], crate='corpus_run2')
# the product order as a lattice column (tuple and array carrier)
both('lat_product', ['relation s(i32, i32, i32)', 'relation e(i32, i32)', 'lattice p(i32, ascent::lattice::Product<(i32, i32)>)', 'lattice q(i32, ascent::lattice::Product<[i32; 2]>)', 'relation big(i32)'],
     ['p(x, ascent::lattice::Product((*a, *b))) <-- s(x, a, b)', 'p(y, *v) <-- e(x, y), p(x, v)',
      'q(x, ascent::lattice::Product([*a, *b])) <-- s(x, a, b)', 'q(y, *v) <-- e(x, y), q(x, v)',
      'big(x) <-- p(x, v), if v.0 .0 > 3'], tags=['lattice'], crate='corpus_run2')
both('lat_valkey', ['relation inp(i32, i32)', 'relation step(i32)', 'lattice best(i32, i32)', 'relation probev(i32)', 'relation byval(i32, i32)'],
     ['best(x, *y) <-- inp(x, y)', 'best(x, v + 1) <-- best(x, v), step(v)', 'byval(x, v) <-- probev(v), best(x, v)'], tags=['lattice', 'lat_valkey'])
P('lat_agg', ['relation inp(i32, i32)', 'lattice best(i32, i32)', 'relation n(usize)', 'relation top(i32)'],
  ['best(x, *y) <-- inp(x, y)', 'n(c) <-- agg c = count() in best(_, _)', 'top(m) <-- agg m = max(v) in best(_, v)'], tags=['lattice', 'agg'])
P('lat_agg_par', ['relation inp(i32, i32)', 'lattice best(i32, i32)', 'relation n(usize)'],
  ['best(x, *y) <-- inp(x, y)', 'n(c) <-- agg c = count() in best(_, _)'], macro='ascent_par', tags=['lattice', 'agg'])

# ---------------------------------------------------------------- attributes and packaging
P('timeout', [E2, 'relation path(i32, i32)'],
  ['path(x, y) <-- edge(x, y)', 'path(x, z) <-- edge(x, y), path(y, z)'], attrs=['generate_run_timeout'], tags=['timeout'],
  twin=('tc_lin', 'timeout'))
both('timeout_multi', [E2, 'relation src(i32)', 'relation dst(i32)', 'relation sym(i32, i32)', 'relation path(i32, i32)', 'relation n(usize)', 'relation lone(i32)'],
     ['src(x) <-- edge(x, _)', 'dst(y) <-- edge(_, y)', 'sym(x, y) <-- edge(x, y), edge(y, x)', 'path(x, y) <-- edge(x, y)', 'path(x, z) <-- edge(x, y), path(y, z)',
      'n(c) <-- agg c = count() in src(_)', 'lone(x) <-- src(x), !dst(x)'], attrs=['generate_run_timeout'], tags=['timeout'])
P('timeout_par', [E2, 'relation path(i32, i32)'],
  ['path(x, y) <-- edge(x, y)', 'path(x, z) <-- edge(x, y), path(y, z)'], macro='ascent_par', attrs=['generate_run_timeout'], tags=['timeout'],
  twin=('tc_lin_par', 'timeout'))
P('ruletimes', [E2, 'relation path(i32, i32)'],
  ['path(x, y) <-- edge(x, y)', 'path(x, z) <-- edge(x, y), path(y, z)'], attrs=['measure_rule_times'], tags=['ruletimes'],
  twin=('tc_lin', 'ruletimes'))
P('irp', [E2, 'relation path(i32, i32)', 'relation a(i32)'],
  ['path(x, y) <-- edge(x, y)', 'path(x, z) <-- edge(x, y), path(y, z)', 'a(x) <-- path(x, _)', 'a(y) <-- path(_, y)'],
  macro='ascent_par', attrs=['inter_rule_parallelism'], tags=['irp'])
P('run_tc', [E2, 'relation path(i32, i32)'],
  ['edge(a, b) <-- for (a, b) in input.iter()', 'path(x, y) <-- edge(x, y)', 'path(x, z) <-- edge(x, y), path(y, z)'],
  macro='ascent_run', params='input: Vec<(i32, i32)>', tags=['run'])
P('run_tc_par', [E2, 'relation path(i32, i32)'],
  ['edge(a, b) <-- for (a, b) in input.iter()', 'path(x, y) <-- edge(x, y)', 'path(x, z) <-- edge(x, y), path(y, z)'],
  macro='ascent_run_par', params='input: Vec<(i32, i32)>', tags=['run'])
P('init_rel', ['relation edge(i32, i32) = vec![(1, 2), (2, 3)]', 'relation path(i32, i32)'],
  ['path(x, y) <-- edge(x, y)', 'path(x, z) <-- edge(x, y), path(y, z)'], tags=['init'])
P('generic', ['relation edge(N, N)', 'relation path(N, N)'],
  ['path(x, y) <-- edge(x, y)', 'path(x, z) <-- edge(x, y), path(y, z)'],
  sig='pub struct P<N: Clone + Eq + std::hash::Hash>;', tags=['generic'], twin=('tc_lin', 'generic'))

# ---------------------------------------------------------------- data structure providers (all access patterns)
BY = 'use ascent_byods_rels::*;'
for ds in ('eqrel', 'trrel', 'trrel_uf'):
    P('bin_' + ds, ['#[ds(%s)] relation r(i32, i32)' % ds, 'relation seed(i32, i32)', 'relation dom(i32)',
                    'relation o_none(i32, i32)', 'relation o_0(i32, i32)', 'relation o_1(i32, i32)', 'relation o_01(i32, i32)'],
      ['r(x, y) <-- seed(x, y)',
       'o_none(x, y) <-- r(x, y)',
       'o_0(x, y) <-- dom(x), r(x, y)',
       'o_1(x, y) <-- dom(y), r(x, y)',
       'o_01(x, y) <-- dom(x), dom(y), r(x, y)'], uses=BY, tags=['ds', ds])
    P('bin_rec_' + ds, ['#[ds(%s)] relation r(i32, i32)' % ds, 'relation seed(i32, i32)', 'relation link(i32, i32, i32, i32)', 'relation o_0(i32, i32)',
                        'relation dom(i32)'],
      ['r(x, y) <-- seed(x, y)', 'r(c, d) <-- r(a, b), link(a, b, c, d)', 'o_0(x, y) <-- dom(x), r(x, y)'], uses=BY, tags=['ds', ds, 'dsrec'])
    P('ter_' + ds, ['#[ds(%s)] relation r(i32, i32, i32)' % ds, 'relation seed(i32, i32, i32)', 'relation dom(i32)',
                    'relation o_none(i32, i32, i32)', 'relation o_0(i32, i32, i32)', 'relation o_01(i32, i32, i32)',
                    'relation o_12(i32, i32, i32)', 'relation o_012(i32, i32, i32)', 'relation o_rec(i32, i32, i32)'],
      ['r(k, x, y) <-- seed(k, x, y)',
       'o_none(k, x, y) <-- r(k, x, y)',
       'o_0(k, x, y) <-- dom(k), r(k, x, y)',
       'o_01(k, x, y) <-- dom(k), dom(x), r(k, x, y)',
       'o_12(k, x, y) <-- dom(x), dom(y), r(k, x, y)',
       'o_012(k, x, y) <-- dom(k), dom(x), dom(y), r(k, x, y)'], uses=BY, tags=['ds', ds])
    P('ter_rec_' + ds, ['#[ds(%s)] relation r(i32, i32, i32)' % ds, 'relation seed(i32, i32, i32)',
                        'relation link(i32, i32, i32, i32, i32, i32)', 'relation o(i32, i32, i32)'],
      ['r(k, x, y) <-- seed(k, x, y)', 'r(k2, c, d) <-- r(k, a, b), link(k, a, b, k2, c, d)', 'o(k, x, y) <-- r(k, x, y)'],
      uses=BY, tags=['ds', ds, 'dsrec'])
P('bin_eqrel_par', ['#[ds(eqrel)] relation r(i32, i32)', 'relation seed(i32, i32)', 'relation dom(i32)',
                    'relation o_none(i32, i32)', 'relation o_0(i32, i32)'],
  ['r(x, y) <-- seed(x, y)', 'o_none(x, y) <-- r(x, y)', 'o_0(x, y) <-- dom(x), r(x, y)'], macro='ascent_par', uses=BY, tags=['ds', 'eqrel'])

# ================================================================ twins
# ---- C-level: sugar that must expand to the same code as its hand expansion
NODE = ['relation node(i32)', 'relation reach(i32, i32)', 'relation iso(i32)']
both('t_neg_sugar', NODE, ['iso(x) <-- node(x), !reach(x, x)'], tags=['twin'], twin=('t_neg_core', 'C'))
both('t_neg_core', NODE, ['iso(x) <-- node(x), agg () = not() in reach(x, x)'], tags=['twin'])
both('t_wild_sugar', ['relation p(i32, i32, i32)', 'relation q(i32)', 'relation k(i32)'],
     ['q(x) <-- p(x, _, _)', 'q(y) <-- k(x), p(x, _, y)'], tags=['twin'], twin=('t_wild_core', 'C'))
both('t_wild_core', ['relation p(i32, i32, i32)', 'relation q(i32)', 'relation k(i32)'],
     ['q(x) <-- p(x, a, b)', 'q(y) <-- k(x), p(x, a, y)'], tags=['twin'])
both('t_pat_sugar', ['relation o(Option<i32>, i32)', 'relation q(i32)', 'relation k(i32)'],
     ['q(*v) <-- o(?Some(v), _)', 'q(*v) <-- k(x), o(?Some(v), x)'], tags=['twin'], twin=('t_pat_core', 'C'))
both('t_pat_core', ['relation o(Option<i32>, i32)', 'relation q(i32)', 'relation k(i32)'],
     ['q(*v) <-- o(w, _) if let Some(v) = w', 'q(*v) <-- k(x), o(w, x) if let Some(v) = w'], tags=['twin'])
both('t_rep_sugar', ['relation p(i32, i32)', 'relation foo(i32, i32)', 'relation bar(i32, i32)', 'relation q(i32)', 'relation res(i32, i32)'],
     ['q(x) <-- p(x, x)', 'q(x) <-- p(x, x + 1)', 'q(x) <-- foo(x, y), p(y, x), if x > y', 'res(x, y) <-- foo(y, x), p(x, x)'],
     tags=['twin'], twin=('t_rep_core', 'C'))
both('t_rep_core', ['relation p(i32, i32)', 'relation foo(i32, i32)', 'relation bar(i32, i32)', 'relation q(i32)', 'relation res(i32, i32)'],
     ['q(x) <-- p(x, w) if w.eq(&(x))', 'q(x) <-- p(x, w) if w.eq(&(x + 1))',
      'q(x) <-- foo(x, y), p(y, x), if x > y', 'res(x, y) <-- foo(y, x), p(x, x)'], tags=['twin'])
# a variable repeated ACROSS clauses becomes a lookup key (same query as an explicit equality test, different plan): both sides are
# translation-validated against their own text (kind V), the texts are equivalent by construction
both('t_rep2_sugar', ['relation foo(i32, i32)', 'relation bar(i32, i32)', 'relation res(i32, i32)'],
     ['res(x, y) <-- foo(x, y), bar(y, y)', 'res(x, y) <-- foo(x, y), bar(y, 3)'], tags=['twin'], twin=('t_rep2_core', 'V'))
both('t_rep2_core', ['relation foo(i32, i32)', 'relation bar(i32, i32)', 'relation res(i32, i32)'],
     ['res(x, y) <-- foo(x, y), bar(y, w), if w.eq(&(y))', 'res(x, y) <-- foo(x, y), bar(y, w), if *w == 3'], tags=['twin'])
P('t_redecl', ['relation edge(i32, i32) = vec![(9, 9)]', 'relation path(i32, i32)', 'relation edge(i32, i32) = vec![(1, 2)]'],
  ['path(x, y) <-- edge(x, y)', 'path(x, z) <-- edge(x, y), path(y, z)'], tags=['twin'], twin=('t_redecl_last', 'C'))
P('t_redecl_last', ['relation path(i32, i32)', 'relation edge(i32, i32) = vec![(1, 2)]'],
  ['path(x, y) <-- edge(x, y)', 'path(x, z) <-- edge(x, y), path(y, z)'], tags=['twin'])
P('t_redecl_clear', ['relation edge(i32, i32) = vec![(9, 9)]', 'relation path(i32, i32)', 'relation edge(i32, i32)'],
  ['path(x, y) <-- edge(x, y)'], tags=['twin'], twin=('t_redecl_clear_last', 'C'))
P('t_redecl_clear_last', ['relation path(i32, i32)', 'relation edge(i32, i32)'], ['path(x, y) <-- edge(x, y)'], tags=['twin'])

# ---- C-level: packaging
INP = 'pub static INPUT: [(i32, i32); 2] = [(1, 2), (2, 3)];'
PK_RULES = ['edge(*a, *b) <-- for (a, b) in INPUT.iter()', 'path(x, y) <-- edge(x, y)', 'path(x, z) <-- edge(x, y), path(y, z)',
            'cnt(c) <-- agg c = count() in path(_, _)']
PK_DECLS = [E2, 'relation path(i32, i32)', 'relation cnt(usize)']
P('pk_ascent', PK_DECLS, PK_RULES, pre=INP, tags=['twin'], twin=('pk_run', 'C'))
P('pk_run', PK_DECLS, PK_RULES, macro='ascent_run', pre=INP, tags=['twin'])
P('pk_ascent_par', PK_DECLS, PK_RULES, macro='ascent_par', pre=INP, tags=['twin'], twin=('pk_run_par', 'C'))
P('pk_run_par', PK_DECLS, PK_RULES, macro='ascent_run_par', pre=INP, tags=['twin'])
P('pk_init_ascent', ['relation edge(i32, i32) = vec![(1, 2), (2, 3)]', 'relation path(i32, i32)'],
  ['path(x, y) <-- edge(x, y)', 'path(x, z) <-- edge(x, y), path(y, z)'], tags=['twin'], twin=('pk_init_run', 'C'))
P('pk_init_run', ['relation edge(i32, i32) = vec![(1, 2), (2, 3)]', 'relation path(i32, i32)'],
  ['path(x, y) <-- edge(x, y)', 'path(x, z) <-- edge(x, y), path(y, z)'], macro='ascent_run', tags=['twin'])
# include_source at the start / in the middle / at the end vs pasted text
SRC = 'ascent::ascent_source! { %s:\n      relation edge(i32, i32);\n      relation path(i32, i32);\n      path(x, y) <-- edge(x, y);\n   }'
for pos, body, pasted in (
        ('start', ['include_source!(SRCNAME);', 'relation extra(i32);', 'path(x, z) <-- edge(x, y), path(y, z);', 'extra(x) <-- path(x, _);'],
         ['relation edge(i32, i32);', 'relation path(i32, i32);', 'path(x, y) <-- edge(x, y);', 'relation extra(i32);',
          'path(x, z) <-- edge(x, y), path(y, z);', 'extra(x) <-- path(x, _);']),
        ('mid', ['relation extra(i32);', 'include_source!(SRCNAME);', 'path(x, z) <-- edge(x, y), path(y, z);', 'extra(x) <-- path(x, _);'],
         ['relation extra(i32);', 'relation edge(i32, i32);', 'relation path(i32, i32);', 'path(x, y) <-- edge(x, y);',
          'path(x, z) <-- edge(x, y), path(y, z);', 'extra(x) <-- path(x, _);']),
        ('end', ['relation extra(i32);', 'extra(x) <-- path(x, _);', 'path(x, z) <-- edge(x, y), path(y, z);', 'include_source!(SRCNAME);'],
         ['relation extra(i32);', 'extra(x) <-- path(x, _);', 'path(x, z) <-- edge(x, y), path(y, z);', 'relation edge(i32, i32);',
          'relation path(i32, i32);', 'path(x, y) <-- edge(x, y);'])):
    for mac in ('ascent', 'ascent_par'):
        sfx = pos + ('_par' if mac == 'ascent_par' else '')
        nm = 'src_' + sfx
        P('inc_' + sfx, [], [], macro=mac, pre=SRC % nm, body=['pub struct P;'] + [b.replace('SRCNAME', nm) for b in body], tags=['twin'],
          twin=('inc_pasted_' + sfx, 'C'))
        P('inc_pasted_' + sfx, [], [], macro=mac, body=['pub struct P;'] + pasted, tags=['twin'])

# ---- L-level: expansions that re-partition rules
both('t_mh_sugar', [E2, 'relation a(i32)', 'relation b(i32, i32)'],
     ['a(x), b(y, x), a(y) <-- edge(x, y)', 'a(x), b(x, x) <-- a(y), edge(y, x)'], tags=['twin'], twin=('t_mh_core', 'L'))
both('t_mh_core', [E2, 'relation a(i32)', 'relation b(i32, i32)'],
     ['a(x) <-- edge(x, y)', 'b(y, x) <-- edge(x, y)', 'a(y) <-- edge(x, y)', 'a(x) <-- a(y), edge(y, x)', 'b(x, x) <-- a(y), edge(y, x)'], tags=['twin'])
DJ = ['relation p(i32, i32)', 'relation s(i32, i32)', 'relation k(i32)', 'relation q(i32)']
both('t_disj_sugar', DJ, [], body=['pub struct P;'] + [d + ';' for d in DJ] + [
     'q(x) <-- p(x, y), (s(y, _) | k(y)), if *x > 0;',
     'q(x) <-- (p(x, _) | (k(x), (s(x, _) | s(_, x))));',
     'q(x) <-- (k(x) | p(x, _)), (s(x, x) | !k(x));'], tags=['twin'], twin=('t_disj_core', 'L'))
both('t_disj_core', DJ,
     ['q(x) <-- p(x, y), s(y, _), if *x > 0', 'q(x) <-- p(x, y), k(y), if *x > 0',
      'q(x) <-- p(x, _)', 'q(x) <-- k(x), s(x, _)', 'q(x) <-- k(x), s(_, x)',
      'q(x) <-- k(x), s(x, x)', 'q(x) <-- k(x), !k(x)', 'q(x) <-- p(x, _), s(x, x)', 'q(x) <-- p(x, _), !k(x)'], tags=['twin'])
MC = [E2, 'relation k(i32)', 'relation r(i32, i32)', 'relation p(i32, i32)', 'relation a(i32)', 'relation b(i32, i32)']
MACS = ['macro two_hop($a: expr, $b: expr) { edge($a, mid), edge(mid, $b) }',
        'macro big($a: expr) { p($a, w), let w2 = w + 1, if w2 > 3 }',
        'macro three_hop($a: expr, $b: expr) { two_hop!($a, m3), edge(m3, $b) }',
        'macro both($x: expr) { a($x), b($x, $x) }',
        'macro rel_of($r: ident, $x: expr) { $r($x, _) }']
both('t_mac_sugar', MC, [], body=['pub struct P;'] + [d + ';' for d in MC] + MACS + [
     'r(x, z) <-- two_hop!(x, y), two_hop!(y, z);',
     'r(mid, z) <-- k(mid), two_hop!(mid, z);',
     'r(x, z) <-- (two_hop!(x, y) | edge(x, y)), two_hop!(y, z);',
     'a(x) <-- big!(x), big!(x);',
     'r(x, z) <-- three_hop!(x, z), k(z);',
     'both!(x) <-- edge(x, _);',
     'a(x) <-- rel_of!(edge, x), rel_of!(p, x);',
     'a(w) <-- k(w), big!(w);'], tags=['twin'], twin=('t_mac_core', 'L'))
both('t_mac_core', MC,
     ['r(x, z) <-- edge(x, m1), edge(m1, y), edge(y, m2), edge(m2, z)',
      'r(mid, z) <-- k(mid), edge(mid, m1), edge(m1, z)',
      'r(x, z) <-- edge(x, m1), edge(m1, y), edge(y, m2), edge(m2, z)',
      'r(x, z) <-- edge(x, y), edge(y, m2), edge(m2, z)',
      'a(x) <-- p(x, w), let w2 = w + 1, if w2 > 3, p(x, v), let v2 = v + 1, if v2 > 3',
      'r(x, z) <-- edge(x, m1), edge(m1, m3), edge(m3, z), k(z)',
      'a(x), b(x, x) <-- edge(x, _)',
      'a(x) <-- edge(x, _), p(x, _)',
      'a(w) <-- k(w), p(w, w1), let w2 = w1 + 1, if w2 > 3'], tags=['twin'])
# nested macros: a macro-local variable that occurs only inside the arguments of nested invocations, three levels, under a disjunction
MACN = ['macro e1($a: expr, $b: expr) { edge($a, $b) }',
        'macro hop2n($a: expr, $c: expr) { e1!($a, mid), e1!(mid, $c) }',
        'macro hop4n($a: expr, $c: expr) { hop2n!($a, mid4), hop2n!(mid4, $c) }',
        'macro hopk($a: expr, $c: expr) { hop2n!($a, w), k(w), e1!(w, $c) }']
both('t_macn_sugar', MC, [], body=['pub struct P;'] + [d + ';' for d in MC] + MACN + [
     'r(x, z) <-- hop2n!(x, y), hop2n!(y, z);',
     'r(mid, z) <-- k(mid), hop2n!(mid, z);',
     'r(x, z) <-- hop4n!(x, z), k(z);',
     'r(x, z) <-- (hop2n!(x, y) | e1!(x, y)), hop2n!(y, z), k(x);',
     'r(mid4, w) <-- p(mid4, w), hop4n!(mid4, w);',
     'b(x, z) <-- hopk!(x, y), hopk!(y, z);'], tags=['twin'], twin=('t_macn_core', 'L'))
both('t_macn_core', MC,
     ['r(x, z) <-- edge(x, m1), edge(m1, y), edge(y, m2), edge(m2, z)',
      'r(mid, z) <-- k(mid), edge(mid, m1), edge(m1, z)',
      'r(x, z) <-- edge(x, m1), edge(m1, m4), edge(m4, m2), edge(m2, z), k(z)',
      'r(x, z) <-- edge(x, m1), edge(m1, y), edge(y, m2), edge(m2, z), k(x)',
      'r(x, z) <-- edge(x, y), edge(y, m2), edge(m2, z), k(x)',
      'r(mid4, w) <-- p(mid4, w), edge(mid4, m1), edge(m1, m4), edge(m4, m2), edge(m2, w)',
      'b(x, z) <-- edge(x, m1), edge(m1, w1), k(w1), edge(w1, y), edge(y, m2), edge(m2, w2), k(w2), edge(w2, z)'], tags=['twin'])
# more hygiene shapes: call-site expressions that mention a variable named like the macro's local, a macro-local aggregation
# result, the same macro in both branches of a disjunction, a macro local next to an identifier parameter
MACH = ['macro two_hop($a: expr, $b: expr) { edge($a, mid), edge(mid, $b) }',
        'macro many($x: expr) { agg c = count() in p($x, _), if c > 1 }',
        'macro lk($r: ident, $x: expr, $y: expr) { $r($x, w), $r(w, $y) }',
        'macro shift($x: expr, $y: expr) { p($x, w), let w2 = w + 1, edge(w2, $y) }']
both('t_mach_sugar', MC, [], body=['pub struct P;'] + [d + ';' for d in MC] + MACH + [
     'r(mid, z) <-- k(mid), two_hop!(mid + 1, z);',
     'a(x) <-- k(x), many!(x), many!(x + 1);',
     'r(x, y) <-- k(x), k(y), (two_hop!(x, y) | two_hop!(y, x));',
     'r(w, z) <-- k(w), lk!(edge, w, z);',
     'r(x, z) <-- lk!(edge, x, y), lk!(p, y, z);',
     'r(w2, z) <-- k(w2), shift!(w2, z), shift!(z, w2);'], tags=['twin'], twin=('t_mach_core', 'L'))
both('t_mach_core', MC,
     ['r(mid, z) <-- k(mid), edge(mid + 1, m1), edge(m1, z)',
      'a(x) <-- k(x), agg c1 = count() in p(x, _), if c1 > 1, agg c2 = count() in p(x + 1, _), if c2 > 1',
      'r(x, y) <-- k(x), k(y), edge(x, m1), edge(m1, y)',
      'r(x, y) <-- k(x), k(y), edge(y, m1), edge(m1, x)',
      'r(w, z) <-- k(w), edge(w, w1), edge(w1, z)',
      'r(x, z) <-- edge(x, w1), edge(w1, y), p(y, w3), p(w3, z)',
      'r(w2, z) <-- k(w2), p(w2, wa), let wa2 = wa + 1, edge(wa2, z), p(z, wb), let wb2 = wb + 1, edge(wb2, w2)'], tags=['twin'])
# include_source! next to re-declarations: the position of the included text decides which declaration is the last one
SRC2 = 'ascent::ascent_source! { %s:\n      relation limit(i32) = vec![(3,)];\n      relation edge(i32, i32);\n      relation small(i32);\n      small(x) <-- edge(x, _), limit(l), if x < l;\n   }'
for pos, body, pasted in (
        ('redecl_after', ['include_source!(SRCNAME);', 'relation limit(i32) = vec![(5,)];', 'relation out(i32);', 'out(x) <-- small(x);'],
         ['relation limit(i32) = vec![(3,)];', 'relation edge(i32, i32);', 'relation small(i32);', 'small(x) <-- edge(x, _), limit(l), if x < l;',
          'relation limit(i32) = vec![(5,)];', 'relation out(i32);', 'out(x) <-- small(x);']),
        ('redecl_before', ['relation limit(i32) = vec![(5,)];', 'include_source!(SRCNAME);', 'relation out(i32);', 'out(x) <-- small(x);'],
         ['relation limit(i32) = vec![(5,)];', 'relation limit(i32) = vec![(3,)];', 'relation edge(i32, i32);', 'relation small(i32);',
          'small(x) <-- edge(x, _), limit(l), if x < l;', 'relation out(i32);', 'out(x) <-- small(x);']),
        ('redecl_around', ['relation limit(i32) = vec![(7,)];', 'relation out(i32);', 'include_source!(SRCNAME);', 'out(x) <-- small(x);', 'relation edge(i32, i32) = vec![(1, 2)];'],
         ['relation limit(i32) = vec![(7,)];', 'relation out(i32);', 'relation limit(i32) = vec![(3,)];', 'relation edge(i32, i32);', 'relation small(i32);',
          'small(x) <-- edge(x, _), limit(l), if x < l;', 'out(x) <-- small(x);', 'relation edge(i32, i32) = vec![(1, 2)];'])):
    for mac in ('ascent',):      # vec![..] initialisers only type-check for the serial row store
        sfx = pos
        nm = 'src2_' + sfx
        P('inc_' + sfx, [], [], macro=mac, pre=SRC2 % nm, body=['pub struct P;'] + [b.replace('SRCNAME', nm) for b in body], tags=['twin'],
          twin=('inc_pasted_' + sfx, 'C'))
        P('inc_pasted_' + sfx, [], [], macro=mac, body=['pub struct P;'] + pasted, tags=['twin'])
# conditions attached to a clause (no comma) inside a macro body: their variables are macro-local too
MACA = ['macro big($x: expr) { p($x, t) if *t > 6 }',
        'macro pick($x: expr, $r: ident) { p($x, t) if let Some($r) = Some(*t + 1) if *t > 0 }',
        'macro both2($x: expr) { p($x, t) let u = *t + 1 if u > 3, edge(u, t) }']
both('t_maca_sugar', MC, [], body=['pub struct P;'] + [d + ';' for d in MC] + MACA + [
     'r(a0, t) <-- edge(a0, t), big!(a0);',
     'r(x, z) <-- k(x), big!(x), big!(x + 1), edge(x, z);',
     'r(t, w) <-- k(t), pick!(t, w);',
     'b(x, t) <-- edge(x, t), both2!(x), both2!(t);'], tags=['twin'], twin=('t_maca_core', 'L'))
both('t_maca_core', MC,
     ['r(a0, t) <-- edge(a0, t), p(a0, t1) if *t1 > 6',
      'r(x, z) <-- k(x), p(x, t1) if *t1 > 6, p(x + 1, t2) if *t2 > 6, edge(x, z)',
      'r(t, w) <-- k(t), p(t, t1) if let Some(w) = Some(*t1 + 1) if *t1 > 0',
      'b(x, t) <-- edge(x, t), p(x, t1) let u1 = *t1 + 1 if u1 > 3, edge(u1, t1), p(t, t2) let u2 = *t2 + 1 if u2 > 3, edge(u2, t2)'], tags=['twin'])
# struct patterns with shorthand fields inside a macro body (renaming a shorthand field needs the long form)
PT_PRE = '   #[derive(Clone, PartialEq, Eq, Hash, Debug)] pub struct Pt { pub t: i32, pub u: i32 }'
MCS = MC + ['relation pt(i32, Pt)']
both('t_macs_sugar', MCS, [], body=['pub struct P;'] + [d + ';' for d in MCS] + ['macro pick($x: expr, $r: ident) { pt($x, ?Pt { t, u }), let $r = t + u }',
     'macro mk($x: expr, $r: ident) { p($x, w), let t = *w, let u = t + 1, let $r = Pt { t, u } }'] + [
     'r(x, s) <-- k(x), pick!(x, s);',
     'r(t, s) <-- k(t), pick!(t, s), pick!(t + 1, s2), if s2 > s;',
     'pt(x, q) <-- k(x), let t = 3, let u = 4, if t < u, mk!(x, q);'], pre=PT_PRE, tags=['twin'], twin=('t_macs_core', 'L'))
both('t_macs_core', MCS,
     ['r(x, s) <-- k(x), pt(x, ?Pt { t: t1, u: u1 }), let s = t1 + u1',
      'r(t, s) <-- k(t), pt(t, ?Pt { t: t1, u: u1 }), let s = t1 + u1, pt((t + 1), ?Pt { t: t2, u: u2 }), let s2 = t2 + u2, if s2 > s',
      'pt(x, q) <-- k(x), let t = 3, let u = 4, if t < u, p(x, w1), let t1 = *w1, let u1 = t1 + 1, let q = Pt { t: t1, u: u1 }'], pre=PT_PRE, tags=['twin'])
# the name spaces of the macro's fresh identifiers are disjoint: hygiene of in-program macros / repeated variables / ?pattern arguments
MACF = ['macro m1($r: ident) { $r(x) }',
        'macro m2($a: expr) { edge($a, arg_pattern), k(arg_pattern) }',
        'macro m3($a: expr) { p($a, x), p(x, x) }',
        'macro gp($p: expr, $g: ident) { edge($p, p), edge(p, $g) }']
both('t_macf_sugar', MCS, [], body=['pub struct P;'] + [d + ';' for d in MCS] + MACF + [
     'a(x) <-- b(x, x), m1!(k);',
     'a(y) <-- pt(y, ?Pt { t, u }), m2!(*t + *u);',
     'a(x) <-- b(x, x), m3!(x);',
     'a(x) <-- b(x, x), m1!(k), m1!(a);',
     'b(x, z) <-- k(x), gp!(x, y), gp!(y, z);',
     'b(p, z) <-- k(p), gp!(p, z);'], pre=PT_PRE, tags=['twin'], twin=('t_macf_core', 'L'))
both('t_macf_core', MCS,
     ['a(x) <-- b(x, x), k(x1)',
      'a(y) <-- pt(y, ?Pt { t, u }), edge((*t + *u), ap1), k(ap1)',
      'a(x) <-- b(x, x), p(x, x1), p(x1, x1)',
      'a(x) <-- b(x, x), k(x1), a(x2)',
      'b(x, z) <-- k(x), edge(x, p1), edge(p1, y), edge(y, p2), edge(p2, z)',
      'b(p, z) <-- k(p), edge(p, p1), edge(p1, z)'], pre=PT_PRE, tags=['twin'])
# `expr` parameters stand for one operand
MACX = ['macro sq($x: expr, $r: ident) { let $r = $x.pow(2) }',
        'macro dbl($x: expr, $r: ident) { let $r = $x * 2 }',
        'macro neg1($x: expr, $r: ident) { let $r = 0 - $x }',
        'macro far($x: expr) { edge($x, t), if *t > $x * 2 }']
both('t_macx_sugar', MC, [], body=['pub struct P;'] + [d + ';' for d in MC] + MACX + [
     'r(x, d) <-- k(x), sq!(-x, d);',
     'r(x, d) <-- k(x), sq!(-x + 1, d), sq!(*x, d2), if d2 > d;',
     'r(x, d) <-- k(x), dbl!(x + 1, d);',
     'r(x, d) <-- k(x), neg1!(x - 3, d);',
     'a(x) <-- k(x), far!(x + 1);',
     'a(x) <-- k(x), far!(x);'], tags=['twin'], twin=('t_macx_core', 'L'))
both('t_macx_core', MC,
     ['r(x, d) <-- k(x), let d = (-x).pow(2)',
      'r(x, d) <-- k(x), let d = (-x + 1).pow(2), let d2 = (*x).pow(2), if d2 > d',
      'r(x, d) <-- k(x), let d = (x + 1) * 2',
      'r(x, d) <-- k(x), let d = 0 - (x - 3)',
      'a(x) <-- k(x), edge((x + 1), t1), if *t1 > (x + 1) * 2',
      'a(x) <-- k(x), edge(x, t1), if *t1 > x * 2'], tags=['twin'])
# scoping constructs inside the expressions of a macro body: a `let` of a block rebinds a macro-local name and reads the outer one in
# its initialiser; closure parameters / match arms with the name of a macro-local variable
MACB = ['macro scaled($id: expr, $out: ident) { p($id, w), let $out = { let w = w * 10; w + 1 } }',
        'macro twice($id: expr, $out: ident) { p($id, w), let $out = { let u = w + 1; let w = u * w; let u = w + u; u } }',
        'macro viaf($id: expr, $out: ident) { p($id, w), let $out = (|w: i32| w + 1)(w * 2) }',
        'macro arm($id: expr, $out: ident) { p($id, w), let $out = match Some(w + 1) { Some(w) => w * 3, None => *w } }',
        'macro armg($id: expr, $out: ident) { p($id, w), let $out = match Some(w + 100) { Some(w) if w.clone() > 100 => w, _ => -1 } }']
both('t_macb_sugar', MC, [], body=['pub struct P;'] + [d + ';' for d in MC] + MACB + [
     'r(x, v) <-- k(w), p(x, y), if y <= w, scaled!(x, v);',
     'r(x, v) <-- k(w), k(u), if u < w, twice!(x, v);',
     'r(x, v) <-- k(w), p(x, y), if y <= w, viaf!(x, v);',
     'r(x, v) <-- k(w), p(x, y), if y <= w, arm!(x, v);',
     'b(x, v) <-- k(w), p(x, y), if y <= w, armg!(x, v);'], tags=['twin'], twin=('t_macb_core', 'L'))
both('t_macb_core', MC,
     ['r(x, v) <-- k(w), p(x, y), if y <= w, p(x, w1), let v = { let w = w1 * 10; w + 1 }',
      'r(x, v) <-- k(w), k(u), if u < w, p(x, w1), let v = { let u = w1 + 1; let w = u * w1; let u = w + u; u }',
      'r(x, v) <-- k(w), p(x, y), if y <= w, p(x, w1), let v = (|w: i32| w + 1)(w1 * 2)',
      'r(x, v) <-- k(w), p(x, y), if y <= w, p(x, w1), let v = match Some(w1 + 1) { Some(w) => w * 3, None => *w1 }',
      'b(x, v) <-- k(w), p(x, y), if y <= w, p(x, w1), let v = match Some(w1 + 100) { Some(w) if w.clone() > 100 => w, _ => -1 }'], tags=['twin'])
# an aggregation inside a macro body: the aggregated variables (`sum(v) in p($k, v)`) are local to the macro as well
MACG = ['macro total($k: expr, $out: ident) { agg $out = sum(v) in p($k, v) }',
        'macro cnt2($k: expr, $out: ident) { k(t), agg $out = count() in edge($k, t) }',
        'macro tot2($k: expr, $out: ident) { agg v = sum(v) in p($k, v), let $out = v + 1 }']
both('t_macg_sugar', MC, [], body=['pub struct P;'] + [d + ';' for d in MC] + MACG + [
     'r(x, s) <-- k(x), k(v), if v > x, total!(x, s);',
     'r(x, s) <-- k(x), total!(x, s), total!(x + 1, s2), if s2 > s;',
     'a(t) <-- k(t), cnt2!(t, c), if c > 1;',
     'b(x, s) <-- k(x), k(v), if v > x, tot2!(x, s);'], tags=['twin'], twin=('t_macg_core', 'L'))
both('t_macg_core', MC,
     ['r(x, s) <-- k(x), k(v), if v > x, agg s = sum(v1) in p(x, v1)',
      'r(x, s) <-- k(x), agg s = sum(v1) in p(x, v1), agg s2 = sum(v2) in p(x + 1, v2), if s2 > s',
      'a(t) <-- k(t), k(t1), agg c = count() in edge(t, t1), if c > 1',
      'b(x, s) <-- k(x), k(v), if v > x, agg v1 = sum(v2) in p(x, v2), let s = v1 + 1'], tags=['twin'])
# a macro with an empty body, invoked in the middle of another macro body / of a disjunct
MACE = ['macro nothing() { }', 'macro wrap($x: ident) { k($x), nothing!(), a($x) }']
both('t_mace_sugar', MC, [], body=['pub struct P;'] + [d + ';' for d in MC] + MACE + [
     'r(x, x) <-- wrap!(x);',
     'r(x, x) <-- (k(x), nothing!(), p(x, _) | a(x), if *x > 5);',
     'a(x) <-- k(x), nothing!();',
     'b(x, y) <-- nothing!(), k(x), wrap!(y);'], tags=['twin'], twin=('t_mace_core', 'L'))
both('t_mace_core', MC,
     ['r(x, x) <-- k(x), a(x)',
      'r(x, x) <-- k(x), p(x, _)',
      'r(x, x) <-- a(x), if *x > 5',
      'a(x) <-- k(x)',
      'b(x, y) <-- k(x), k(y), a(y)'], tags=['twin'])
# a disjunction inside a macro body whose locals are private to one disjunct each
MACD = ['macro alt($a: expr, $b: expr) { (edge($a, t1), p(t1, $b) | p($a, t2), edge(t2, $b)) }',
        'macro alt2($a: expr, $b: expr) { k($a), (alt!($a, m) | edge($a, m)), edge(m, $b) }']
both('t_macd_sugar', MC, [], body=['pub struct P;'] + [d + ';' for d in MC] + MACD + [
     'r(x, z) <-- alt!(x, y), alt!(y, z);',
     'r(t1, z) <-- k(t1), alt!(t1, z);',
     'b(x, z) <-- alt2!(x, y), alt2!(y, z);'], tags=['twin'], twin=('t_macd_core', 'L'))
both('t_macd_core', MC,
     ['r(x, z) <-- edge(x, a1), p(a1, y), edge(y, a2), p(a2, z)',
      'r(x, z) <-- edge(x, a1), p(a1, y), p(y, b2), edge(b2, z)',
      'r(x, z) <-- p(x, b1), edge(b1, y), edge(y, a2), p(a2, z)',
      'r(x, z) <-- p(x, b1), edge(b1, y), p(y, b2), edge(b2, z)',
      'r(t1, z) <-- k(t1), edge(t1, a1), p(a1, z)',
      'r(t1, z) <-- k(t1), p(t1, b1), edge(b1, z)',
      'b(x, z) <-- k(x), edge(x, a1), p(a1, m1), edge(m1, y), k(y), edge(y, a2), p(a2, m2), edge(m2, z)',
      'b(x, z) <-- k(x), edge(x, a1), p(a1, m1), edge(m1, y), k(y), p(y, b2), edge(b2, m2), edge(m2, z)',
      'b(x, z) <-- k(x), edge(x, a1), p(a1, m1), edge(m1, y), k(y), edge(y, m2), edge(m2, z)',
      'b(x, z) <-- k(x), p(x, b1), edge(b1, m1), edge(m1, y), k(y), edge(y, a2), p(a2, m2), edge(m2, z)',
      'b(x, z) <-- k(x), p(x, b1), edge(b1, m1), edge(m1, y), k(y), p(y, b2), edge(b2, m2), edge(m2, z)',
      'b(x, z) <-- k(x), p(x, b1), edge(b1, m1), edge(m1, y), k(y), edge(y, m2), edge(m2, z)',
      'b(x, z) <-- k(x), edge(x, m1), edge(m1, y), k(y), edge(y, a2), p(a2, m2), edge(m2, z)',
      'b(x, z) <-- k(x), edge(x, m1), edge(m1, y), k(y), p(y, b2), edge(b2, m2), edge(m2, z)',
      'b(x, z) <-- k(x), edge(x, m1), edge(m1, y), k(y), edge(y, m2), edge(m2, z)'], tags=['twin'])
SRC3 = 'ascent::ascent_source! { %s:\n      relation category(i32, i32);\n      relation item(i32, i32);\n      relation cheapest(i32, i32);\n      relation total(i32, i32);\n      cheapest(c, m) <-- category(c, shelf), agg m = min(p) in item(c, p);\n      total(c, s) <-- category(c, _), agg s = sum(p) in item(c, p), if s > 0;\n   }'
for mac in ('ascent', 'ascent_par'):
    sfx = 'agg' + ('_par' if mac == 'ascent_par' else '')
    nm = 'src3_' + sfx
    P('inc_' + sfx, [], [], macro=mac, pre=SRC3 % nm, body=['pub struct P;', 'include_source!(%s);' % nm, 'relation out(i32);', 'out(m) <-- cheapest(_, m);'], tags=['twin'],
      twin=('inc_pasted_' + sfx, 'C'))
    P('inc_pasted_' + sfx, [], [], macro=mac, body=['pub struct P;', 'relation category(i32, i32);', 'relation item(i32, i32);', 'relation cheapest(i32, i32);', 'relation total(i32, i32);',
      'cheapest(c, m) <-- category(c, shelf), agg m = min(p) in item(c, p);', 'total(c, s) <-- category(c, _), agg s = sum(p) in item(c, p), if s > 0;',
      'relation out(i32);', 'out(m) <-- cheapest(_, m);'], tags=['twin'])
# the program-level attributes of a program with an include are those of the pasted program
_PASTED3 = ['pub struct P;', 'relation category(i32, i32);', 'relation item(i32, i32);', 'relation cheapest(i32, i32);', 'relation total(i32, i32);',
            'cheapest(c, m) <-- category(c, shelf), agg m = min(p) in item(c, p);', 'total(c, s) <-- category(c, _), agg s = sum(p) in item(c, p), if s > 0;',
            'relation out(i32);', 'out(m) <-- cheapest(_, m);']
for sfx, mac, at in (('attr_mrt', 'ascent', ['measure_rule_times']), ('attr_to', 'ascent', ['generate_run_timeout']),
                     ('attr_irp', 'ascent_par', ['inter_rule_parallelism']), ('attr_two', 'ascent_par', ['measure_rule_times', 'generate_run_timeout'])):
    nm = 'src3_' + sfx
    P('inc_' + sfx, [], [], macro=mac, attrs=at, pre=SRC3 % nm, body=['pub struct P;', 'include_source!(%s);' % nm, 'relation out(i32);', 'out(m) <-- cheapest(_, m);'],
      tags=['twin'], twin=('inc_pasted_' + sfx, 'C'))
    P('inc_pasted_' + sfx, [], [], macro=mac, attrs=at, body=_PASTED3, tags=['twin'])
SRC4 = 'ascent::ascent_source! { %s:\n      relation edge(i32, i32, i32);\n      lattice dist(i32, i32, i32);\n      dist(x, y, *w) <-- edge(x, y, w);\n      relation not3(i32, i32);\n      relation n3(i32, usize);\n      not3(x, y) <-- edge(x, y, _), !dist(x, y, 3);\n      n3(x, c) <-- edge(x, _, w), agg c = count() in dist(x, _, w);\n   }'
nm = 'src4_lat'
P('inc_lat', [], [], macro='ascent', pre=SRC4 % nm, body=['pub struct P;', 'include_source!(%s);' % nm], tags=['twin'], twin=('inc_pasted_lat', 'C'))
P('inc_pasted_lat', [], [], macro='ascent', body=['pub struct P;', 'relation edge(i32, i32, i32);', 'lattice dist(i32, i32, i32);', 'dist(x, y, *w) <-- edge(x, y, w);',
  'relation not3(i32, i32);', 'relation n3(i32, usize);', 'not3(x, y) <-- edge(x, y, _), !dist(x, y, 3);', 'n3(x, c) <-- edge(x, _, w), agg c = count() in dist(x, _, w);'], tags=['twin'])
# relation initialisers are evaluated in textual order, whatever the relations are called
P('init_order_run', ['relation zeta(i32) = mk(v, 1)', 'relation alpha(i32) = mk(v, 2)', 'relation mid(i32) = mk(v, 3)', 'relation out(i32)'],
  ['out(x) <-- zeta(x), alpha(x), mid(x)'], macro='ascent_run', params='v: &[i32]',
  pre='   pub fn mk(v: &[i32], k: i32) -> Vec<(i32,)> { v.iter().map(|x| (x * k,)).collect() }', tags=['run', 'init_order'])
P('init_order', ['relation zeta(i32) = mk(1)', 'relation alpha(i32) = mk(2)', 'relation mid(i32) = mk(3)', 'relation out(i32)'],
  ['out(x) <-- zeta(x), alpha(x), mid(x)'], pre='   pub fn mk(k: i32) -> Vec<(i32,)> { vec![(k,), (k + 1,)] }', tags=['init_order'])
# an initialised relation that is a rule head and is read only inside its own recursive stratum (no stratum takes it as a pure input)
P('init_rec_run', ['relation edge(i32, i32)', 'relation path(i32, i32) = known.to_vec()'],
  ['edge(*a, *b) <-- for (a, b) in es.iter()', 'path(x, z) <-- path(x, y), edge(y, z)'], macro='ascent_run',
  params='es: &[(i32, i32)], known: &[(i32, i32)]', tags=['run', 'init_rec'])
P('init_rec', ['relation edge(i32, i32)', 'relation path(i32, i32) = vec![(1, 2)]'],
  ['path(x, z) <-- path(x, y), edge(y, z)'], tags=['init_rec'])
# captured locals named like locals of the generated code
P('run_names', ['relation a(i32)', 'relation b(i32)', 'relation c(i32)', 'relation out(i32)'],
  ['a(*v) <-- for v in input.iter()', 'b(x) <-- a(x)', 'c(x) <-- a(x)', 'out(x) <-- a(x), b(x), c(x), if any_rel_empty', 'out(x + cl1_val) <-- a(x), b(x)'],
  macro='ascent_run', params='input: &[i32], any_rel_empty: bool, cl1_val: i32', tags=['run', 'free_ident'])
P('run_names2', ['relation a(i32)', 'relation b(i32)', 'relation c(i32)', 'relation out(i32)'],
  ['a(*v) <-- for v in input.iter()', 'b(x) <-- a(x)', 'c(x) <-- a(x)', 'out(x + before_rule) <-- a(x), b(x), c(y), if x < y'],
  macro='ascent_run', params='input: &[i32], before_rule: i32', attrs=['measure_rule_times'], tags=['run', 'free_ident'], crate='corpus_run2')
# a function of the program's module that is spelled like a parameter of the generated run_timeout
both('timeout_names', ['relation q(i32)', 'relation p(i32)', 'relation s(i32, i32)'],
     ['p(x) <-- q(x), if timeout(*x)', 's(x, y) <-- p(x), q(y), if timeout(x + y)', 'p(y) <-- s(_, y), if !timeout(*y)'],
     attrs=['generate_run_timeout'], pre='   pub fn timeout(x: i32) -> bool { x % 3 == 0 }', tags=['timeout', 'free_ident'], crate='corpus_run2')
# ---- S-level: permutations / renamings (both sides are translation-validated; their specs are equal as sets)
both('t_perm_rules', [E2, 'relation path(i32, i32)'], ['path(x, z) <-- edge(x, y), path(y, z)', 'path(x, y) <-- edge(x, y)'],
     tags=['twin'], twin=('tc_lin', 'L'))
both('t_perm_decls', ['relation path(i32, i32)', E2], ['path(x, y) <-- edge(x, y)', 'path(x, z) <-- edge(x, y), path(y, z)'],
     tags=['twin'], twin=('tc_lin', 'C'))
both('t_perm_heads', [E2, 'relation a(i32)', 'relation b(i32, i32)'],
     ['a(y), a(x), b(y, x) <-- edge(x, y)', 'b(x, x), a(x) <-- a(y), edge(y, x)'], tags=['twin'], twin=('t_mh_sugar', 'L'))
both('t_perm_body', [E2, 'relation c(i32, i32)', 'relation d(i32, i32)', 'relation out(i32, i32)'],
     ['out(x, w) <-- d(z, w), c(y, z), edge(x, y), if x < w'], tags=['twin'], twin=('t_perm_body0', 'S'))
both('t_perm_body0', [E2, 'relation c(i32, i32)', 'relation d(i32, i32)', 'relation out(i32, i32)'],
     ['out(x, w) <-- edge(x, y), c(y, z), d(z, w), if x < w'], tags=['twin'])
both('t_renamed', ['relation kante(i32, i32)', 'relation weg(i32, i32)'],
     ['weg(a, b) <-- kante(a, b)', 'weg(a, c) <-- kante(a, b), weg(b, c)'], tags=['twin'],
     twin=('tc_lin', 'S', {'kante': 'edge', 'weg': 'path', 'a': 'x', 'b': 'y', 'c': 'z'}))

# ================================================================ systematic families
# n recursive clauses with a static clause at every position, conditions in between
for n in (1, 2, 3, 4):
    for pos in range(n + 1):
        cls = []
        vars_ = ['v%d' % i for i in range(n + 2)]
        k = 0
        for i in range(n + 1):
            if i == pos:
                cls.append('edge(%s, %s)' % (vars_[k], vars_[k + 1])); k += 1
            if i < n:
                if k + 1 < len(vars_):
                    cls.append('r(%s, %s)' % (vars_[k], vars_[k + 1])); k += 1
        body = ', '.join(cls)
        head = 'r(%s, %s)' % (vars_[0], vars_[k])
        both('fam_rec%d_s%d' % (n, pos), [E2, 'relation r(i32, i32)'], ['r(x, y) <-- edge(x, y)', head + ' <-- ' + body + ', if ' + vars_[0] + ' != ' + vars_[k]],
             tags=['family', 'rec%d' % n])
# lattice carriers shipped with ascent_base
for nm, ty, mk, uses in (
        ('set', 'Set<i32>', 'Set::singleton(*y)', 'use ascent::lattice::set::Set;'),
        ('bset', 'BoundedSet<3, i32>', 'BoundedSet::singleton(*y)', 'use ascent::lattice::bounded_set::BoundedSet;'),
        ('constp', 'ConstPropagation<i32>', 'ConstPropagation::Constant(*y)', 'use ascent::lattice::constant_propagation::ConstPropagation;'),
        ('ordl', 'OrdLattice<i32>', 'OrdLattice(*y)', 'use ascent::lattice::ord_lattice::OrdLattice;'),
        ('optdual', 'Option<Dual<i32>>', 'Some(Dual(*y))', ''),
        ('tuple', '(i32, i32)', '(*y, *x)', ''),
        ('boolean', 'bool', '*y > 0', '')):
    both('fam_lat_' + nm, ['relation inp(i32, i32)', 'lattice l(i32, %s)' % ty, 'relation seen(i32)', 'relation step(i32, i32)'],
         ['l(x, %s) <-- inp(x, y)' % mk, 'l(z, v.clone()) <-- l(x, v), step(x, z)', 'seen(*x) <-- l(x, _)'], uses=uses, tags=['family', 'lattice'])
# aggregators
P('fam_aggs', ['relation g(i32, i32, i32)', 'relation k(i32)', 'relation o1(i32, i32)', 'relation o2(i32)', 'relation o3(i32, i64)', 'relation o4(i32, i32)',
               'relation o5(usize)', 'relation o6(i32)', 'relation o7(i32, i32)', 'relation o8(i32, i32)', 'relation o9(i32, i32)'],
  ['o1(x, m) <-- k(x), agg m = max(v) in g(x, _, v)',
   'o2(s) <-- agg s = sum(v) in g(_, _, v)',
   'o3(x, a as i64) <-- k(x), agg a = mean(v) in g(x, 3, v)',
   'o4(x, m) <-- k(x), agg m = min(v) in g(x, x + 1, v)',
   'o5(c) <-- agg c = count() in k(_)',
   'o6(p) <-- agg p = (percentile(50.0))(v) in g(_, _, v)',
   'o7(a, b) <-- k(z), agg (a, b) = second_pair(v, w) in g(z, v, w)',
   'o8(a, b) <-- k(z), agg (a, b) = second_pair(w, v) in g(z, v, w)',
   'o9(a, b) <-- agg (a, b) = second_pair(w, z) in g(z, _, w)'],
  pre='   pub fn second_pair<\'a>(inp: impl Iterator<Item = (&\'a i32, &\'a i32)>) -> std::vec::IntoIter<(i32, i32)> { inp.map(|(a, b)| (*a, *b)).take(1).collect::<Vec<_>>().into_iter() }',
  tags=['family', 'agg'])
both('agg_rep', ['relation foo(i32, i32)', 'relation m(i32)', 'relation g(i32, i32, i32)', 'relation k(i32)', 'relation s(i32, i32)', 'relation c(usize)'],
     ['m(v) <-- agg v = min(y) in foo(y, y)', 's(x, t) <-- k(x), agg t = sum(y) in g(x, y, y)', 'c(n) <-- agg n = count() in g(_, _, _)'], tags=['agg', 'agg_rep'])
# chains of strata with negation / aggregation in between, recursion on both sides
both('fam_chain', [E2, 'relation a(i32)', 'relation b(i32)', 'relation c(i32)', 'relation d(i32, usize)', 'relation s(i32)'],
     ['a(x) <-- s(x)', 'a(y) <-- a(x), edge(x, y)', 'b(x) <-- edge(x, _), !a(x)', 'b(y) <-- b(x), edge(x, y)',
      'c(x) <-- b(x), !a(x)', 'd(x, n) <-- c(x), agg n = count() in b(_)', 'c(y) <-- c(x), edge(y, x), a(y)'], tags=['family', 'neg', 'agg'])
# ascent_run with captured locals and a generic signature with separate impl bounds
P('fam_run_cap', [E2, 'relation path(i32, i32)', 'relation far(i32)'],
  ['edge(*a, *b) <-- for (a, b) in input.iter()', 'path(x, y) <-- edge(x, y)', 'path(x, z) <-- edge(x, y), path(y, z)',
   'far(*y) <-- path(start, y), if *y > limit'],
  macro='ascent_run', params='input: &[(i32, i32)], start: i32, limit: i32', tags=['family', 'run'])
P('fam_generic_where', ['relation edge(N, N)', 'relation path(N, N)', 'relation src(N)', 'relation reach(N)'],
  ['path(x, y) <-- edge(x, y)', 'path(x, z) <-- edge(x, y), path(y, z)', 'reach(y) <-- src(x), path(x, y)'],
  sig='pub struct P<N> where N: Clone + Eq + std::hash::Hash;', tags=['family', 'generic'])

# combinations of surface forms inside one rule (each pair of desugarings meets at least once)
COMBO = ['relation r(i32)', 'relation s(i32, i32, Option<i32>)', 'relation t(i32, i32)', 'relation out(i32, i32)', 'relation o1(i32)']
both('fam_combo', COMBO,
     ['out(x, w) <-- r(x), s(y, x + y, ?Some(z)), t(z, w)',
      'out(x, w) <-- r(x), s(y, y, ?Some(z)), t(z, w)',
      'out(x, w) <-- s(y, y + 1, ?Some(z)), t(z, w), r(x)',
      'out(x, w) <-- r(x), s(y, x, ?Some(z)) if *z > 0, t(z, w)',
      'o1(z) <-- s(_, a, ?Some(z)), s(a, _, ?None), t(z, z)',
      'out(x, z) <-- r(x), s(x, x, ?Some(z)), !t(z, x)',
      'out(a, z) <-- s(a, a + 1, ?Some(z)), agg c = count() in t(z, _), if c > 0',
      'out(x, w) <-- r(x), s(x, _, q), if let Some(z) = q, t(z, w), if w != x',
      'o1(y), out(y, z) <-- for y in 0..3, s(y, y, ?Some(z)), let k = y + z, r(k)'], tags=['family', 'combo'])

# identifiers that are NOT rule variables (statics / consts, locals captured by ascent_run!) used as clause, negation and aggregation keys
FREE_PRE = 'pub static ADMIN: i32 = 1; pub const REGION: i32 = 7;'
both('fam_free_ident', ['relation user(i32)', 'relation owns(i32, i32)', 'relation sales(i32, i32)', 'relation free_for_admin(i32)',
                        'relation region_total(i32)', 'relation admin_owned(i32)', 'relation n_admin(usize)'],
     ['free_for_admin(x) <-- user(x), !owns(ADMIN, x)',
      'region_total(s) <-- agg s = sum(v) in sales(REGION, v)',
      'n_admin(c) <-- agg c = count() in owns(ADMIN, _)',
      'admin_owned(x) <-- user(x), agg c = count() in owns(ADMIN, x), if *x > REGION && c > 0'], pre=FREE_PRE, tags=['family', 'agg', 'neg', 'free_ident'])
P('fam_free_ident_run', ['relation child(i32, i32)', 'relation root_children(usize)', 'relation below(i32)', 'relation lonely(i32)'],
  ['child(*a, *b) <-- for (a, b) in input.iter()',
   'root_children(c) <-- agg c = count() in child(root, _)',
   'below(x) <-- child(r, x), if *r == root',
   'lonely(x) <-- child(_, x), !child(root, x)'], macro='ascent_run', params='input: &[(i32, i32)], root: i32', tags=['family', 'agg', 'neg', 'free_ident', 'run'])


# ================================================================ pseudo-random well-formed programs (fixed seeds: the family is
# deterministic). Layered relations so that negation / aggregation only look at lower layers; every other choice - arities, clause
# order, variable sharing, constants, expressions over bound variables, wildcards, repeated variables, attached vs stand-alone
# conditions, let / for items, one or two heads, recursion through one or several clauses - is drawn at random. The translation
# validation (R1-R5), the version cover (R2) and all G-rules run over them like over the hand-written programs.
class _Rng:
    def __init__(self, seed):
        self.s = seed * 2654435761 % (1 << 32) or 1

    def n(self, k):
        self.s = (self.s * 1103515245 + 12345) % (1 << 31)
        return (self.s >> 8) % k

    def pick(self, xs):
        return xs[self.n(len(xs))]

    def chance(self, num, den):
        return self.n(den) < num


def _rand_program(seed, with_opt=False):
    g = _Rng(seed)
    n_base = 2 + g.n(2)
    n_layers = 2 + g.n(2)
    rels = {}          # name -> (arity, layer)   layer 0 = base
    for i in range(n_base):
        rels['b%d' % i] = (1 + g.n(3), 0)
    layers = []
    k = 0
    for L in range(1, n_layers + 1):
        names = []
        for _ in range(1 + g.n(2)):
            nm = 'd%d' % k; k += 1
            rels[nm] = (1 + g.n(3), L)
            names.append(nm)
        layers.append(names)
    decls = ['relation %s(%s)' % (nm, ', '.join(['i32'] * ar)) for nm, (ar, _) in rels.items()]
    if with_opt:
        decls.append('relation o(i32, Option<i32>)')
    rules = []
    fresh = [0]

    def newvar():
        fresh[0] += 1
        return 'v%d' % fresh[0]

    for L, names in enumerate(layers, 1):
        lower = [nm for nm, (_, l) in rels.items() if l < L]
        same = names
        for head in names:
            har = rels[head][0]
            n_rules = 1 + g.n(3)
            for ri in range(n_rules):
                fresh[0] = 0
                refs, vals = [], []          # clause-bound (references) / let-for-bound (values)
                items = []
                n_cl = 1 + g.n(3)
                recursive = ri > 0 and g.chance(2, 3)
                used_same = False
                for ci in range(n_cl):
                    if recursive and (not used_same or g.chance(1, 3)):
                        rel = g.pick(same); used_same = True
                    else:
                        rel = g.pick(lower)
                    ar = rels[rel][0]
                    args = []
                    here = []
                    for a in range(ar):
                        c = g.n(10)
                        bound = refs + vals
                        if c < 3 and bound:
                            v = g.pick(bound)
                            args.append(v)
                        elif c < 4 and here:
                            args.append(g.pick(here))                      # repeated variable inside the clause
                        elif c < 5:
                            args.append(str(g.n(4)))
                        elif c < 6 and a > 0:
                            args.append('_')
                        elif c < 7 and refs:
                            args.append('%s + %d' % (g.pick(refs), 1 + g.n(2)))
                        else:
                            v = newvar(); args.append(v); here.append(v)
                    txt = '%s(%s)' % (rel, ', '.join(args))
                    new_here = [v for v in here if v not in refs]
                    # attached condition (no comma) over variables bound so far incl. this clause
                    avail = refs + new_here
                    if len(avail) >= 2 and g.chance(1, 4):
                        a1, a2 = g.pick(avail), g.pick(avail)
                        if a1 != a2:
                            txt += ' if %s %s %s' % (a1, g.pick(['<', '!=', '<=']), a2)
                    items.append(txt)
                    refs += new_here
                    if with_opt and g.chance(1, 3):
                        # a clause over the Option-typed relation: ?pattern argument, attached / stand-alone if-let, plain variable
                        k0 = g.pick(refs) if refs and g.chance(2, 3) else None
                        a0 = k0 if k0 else (newvar())
                        form = g.n(4)
                        if form == 3 and any('?None' in it for it in items):
                            form = 0        # ascent takes the identifier pattern `None` for a variable: two of them in one rule are rejected as shadowing
                        if form == 0:
                            pv = newvar(); items.append('o(%s, ?Some(%s))' % (a0, pv)); bound_now = [pv]
                        elif form == 1:
                            wv, pv = newvar(), newvar(); items.append('o(%s, %s) if let Some(%s) = %s' % (a0, wv, pv, wv)); bound_now = [pv]
                        elif form == 2:
                            wv, pv = newvar(), newvar(); items.append('o(%s, %s)' % (a0, wv)); items.append('if let Some(%s) = %s' % (pv, wv)); bound_now = [pv]
                        else:
                            items.append('o(%s, ?None)' % a0); bound_now = []
                        if not k0:
                            refs.append(a0)
                        refs += bound_now
                    # stand-alone items after the clause
                    c = g.n(12)
                    if c == 0 and len(refs) >= 2:
                        a1, a2 = g.pick(refs), g.pick(refs)
                        if a1 != a2:
                            items.append('if %s %s %s' % (a1, g.pick(['<', '!=', '>=']), a2))
                    elif c == 1 and refs:
                        v = newvar(); items.append('let %s = %s + %d' % (v, g.pick(refs), g.n(3))); vals.append(v)
                    elif c == 2:
                        v = newvar(); items.append('for %s in 0..%d' % (v, 2 + g.n(2))); vals.append(v)
                    elif c == 3 and refs:
                        items.append('if *%s > %d' % (g.pick(refs), g.n(3)))
                # negation / aggregation over strictly lower relations, all key columns bound or wildcards
                if lower and refs and g.chance(1, 3):
                    rel = g.pick(lower); ar = rels[rel][0]
                    if g.chance(1, 2):
                        args = [g.pick(refs + ['_']) if g.chance(2, 3) else str(g.n(3)) for _ in range(ar)]
                        items.append('!%s(%s)' % (rel, ', '.join(args)))
                    else:
                        cv = newvar()
                        if ar >= 2 and g.chance(1, 2):
                            yv = newvar()
                            args = [g.pick(refs) if g.chance(1, 2) else '_' for _ in range(ar - 1)] + [yv]
                            items.append('agg %s = %s(%s) in %s(%s)' % (cv, g.pick(['min', 'max']), yv, rel, ', '.join(args)))
                            vals.append(cv)
                        else:
                            args = [g.pick(refs) if g.chance(1, 2) else '_' for _ in range(ar)]
                            items.append('agg %s = count() in %s(%s)' % (cv, rel, ', '.join(args)))
                            items.append('if %s > %d' % (cv, g.n(2)))
                # heads
                heads = []
                for hi in range(1 + (1 if g.chance(1, 5) else 0)):
                    hrel = head if hi == 0 else g.pick(same)
                    hargs = []
                    for a in range(rels[hrel][0]):
                        c = g.n(8)
                        if c < 5 and (refs or vals):
                            hargs.append(g.pick(refs + vals))
                        elif c < 6 and refs:
                            hargs.append('%s + %d' % (g.pick(refs), g.n(3)))
                        else:
                            hargs.append(str(g.n(5)))
                    heads.append('%s(%s)' % (hrel, ', '.join(hargs)))
                rules.append('%s <-- %s' % (', '.join(heads), ', '.join(items)))
    return decls, rules


for _seed in range(101, 131):
    _d, _r = _rand_program(_seed, with_opt=True)
    P('fam_rando_%03d' % _seed, _d, _r, macro=('ascent_par' if _seed % 4 == 0 else 'ascent'), tags=['family', 'rand'])
for _seed in range(1, 61):
    _d, _r = _rand_program(_seed)
    _attrs = ['generate_run_timeout'] if _seed % 4 == 1 else []
    if _seed % 3 == 0:
        P('fam_rand_%02d' % _seed, _d, _r, macro='ascent_par', attrs=_attrs, tags=['family', 'rand'] + (['timeout'] if _attrs else []))
    else:
        P('fam_rand_%02d' % _seed, _d, _r, attrs=_attrs, tags=['family', 'rand'] + (['timeout'] if _attrs else []))


# ================================================================ crates: the corpus is split by family so that a change of /repo that makes
# some well-formed programs fail to compile (reported by C15) does not take the verdicts of the other checks away
def _crate_of(p):
    t = set(p.get('tags', []))
    n = p['name']
    if n.startswith('fam_rand'):
        digits = ''.join(ch for ch in n if ch.isdigit())
        return 'corpus_rand%d' % (int(digits) % 3)
    if 'twin' in t:
        if n.startswith('t_mac'):
            return 'corpus_twins_mac'
        if n.startswith(('inc_', 'pk_', 't_redecl', 'timeout', 'ruletimes')):
            return 'corpus_twins_pk'
        return 'corpus_twins'
    if t & {'eqrel', 'trrel', 'trrel_uf'}:
        return 'corpus_byods'
    if 'lattice' in t:
        return 'corpus_lat'
    if p['macro'] in ('ascent_run', 'ascent_run_par'):
        return 'corpus_run'
    if t & {'agg', 'neg', 'timeout'}:
        return 'corpus_strata'
    return 'corpus_core'


for _p in PROGRAMS:
    _p.setdefault('crate', _crate_of(_p))

