#!/usr/bin/env python3
"""Generate the compile-witness workspace for C15: one tiny crate per ill-formed program (must fail with the expected
diagnostic at the program) and one crate `twins` holding, as modules, the compiling twin of every witness (identical except
for the offending construct - a witness whose text is merely wrong would also fail; the twin rules that out)."""
import itertools, json, os, sys
REPO = os.environ.get('ASCENT_REPO', '/repo')

BASE_DECLS = ['relation e(i32, i32);', 'relation p(i32, i32);', 'relation q(i32);', 'relation z(i32);',
              'relation a1(i32);', 'relation a2(i32);', 'relation a3(i32);']
BASE_RULES = ['p(x, y) <-- e(x, y);', 'p(x, z) <-- e(x, y), p(y, z);', 'q(x) <-- p(x, _);']

# kind -> (bad rule(s), good rule(s), expected fragment); lists of rules are inserted together at the position
RULE_KINDS = {
    'undeclared_head': (['nope(x) <-- e(x, _);'], ['q(x) <-- e(x, _);'], 'relation `nope` is not defined'),
    'undeclared_body': (['q(x) <-- nope(x);'], ['q(x) <-- z(x);'], 'relation `nope` is not defined'),
    'undeclared_agg': (['q(x) <-- e(x, _), agg _c = count() in nope(x);'], ['q(x) <-- e(x, _), agg _c = count() in z(x);'], 'relation `nope` is not defined'),
    'undeclared_neg': (['q(x) <-- e(x, _), !nope(x);'], ['q(x) <-- e(x, _), !z(x);'], 'relation `nope` is not defined'),
    'arity_head': (['q(x, x) <-- e(x, _);'], ['q(x) <-- e(x, _);'], 'wrong arity for relation `q`'),
    'arity_body': (['q(x) <-- e(x);'], ['q(x) <-- e(x, _);'], 'wrong arity for relation `e`'),
    'arity_agg': (['q(x) <-- e(x, _), agg _c = count() in z(x, x);'], ['q(x) <-- e(x, _), agg _c = count() in z(x);'], 'wrong arity for relation `z`'),
    'arity_neg': (['q(x) <-- e(x, _), !z(x, x);'], ['q(x) <-- e(x, _), !z(x);'], 'wrong arity for relation `z`'),
    # the wrong-arity / undeclared clause is not the first mention of that relation in its rule
    'arity_body_2nd': (['q(x) <-- e(x, y), e(y);'], ['q(x) <-- e(x, y), e(y, _);'], 'wrong arity for relation `e`'),
    'arity_body_1st_of_2': (['q(x) <-- e(x), e(x, _);'], ['q(x) <-- e(x, _), e(x, _);'], 'wrong arity for relation `e`'),
    'arity_body_3rd': (['q(x) <-- e(x, y), e(y, w), e(w);'], ['q(x) <-- e(x, y), e(y, w), e(w, _);'], 'wrong arity for relation `e`'),
    'arity_neg_2nd': (['q(x) <-- e(x, y), !e(y);'], ['q(x) <-- e(x, y), !e(y, _);'], 'wrong arity for relation `e`'),
    'arity_agg_2nd': (['q(x) <-- z(x), agg _c = count() in z(x, x);'], ['q(x) <-- z(x), agg _c = count() in z(x);'], 'wrong arity for relation `z`'),
    'arity_head_after_body': (['p(x) <-- p(x, _), e(x, _);'], ['p(x, x) <-- p(x, _), e(x, _);'], 'wrong arity for relation `p`'),
    'arity_head_2nd': (['q(x), q(x, x) <-- e(x, _);'], ['q(x), q(x + 1) <-- e(x, _);'], 'wrong arity for relation `q`'),
    'arity_body_after_head': (['p(x, y) <-- e(x, y), p(y);'], ['p(x, y) <-- e(x, y), p(y, _);'], 'wrong arity for relation `p`'),
    'arity_zero_args': (['q(x) <-- e(x, _), z();'], ['q(x) <-- e(x, _), z(_);'], 'wrong arity for relation `z`'),
    'undeclared_2nd_rule': (['q(x) <-- z(x);', 'q(x) <-- nope(x);'], ['q(x) <-- z(x);', 'q(x) <-- z(x);'], 'relation `nope` is not defined'),
    'strat_self_neg': (['a1(x) <-- e(x, _), !a1(x);'], ['a1(x) <-- e(x, _), !z(x);'], 'cannot be stratified'),
    'strat_self_agg': (['a1(x) <-- e(x, _), agg _c = count() in a1(x);'], ['a1(x) <-- e(x, _), agg _c = count() in z(x);'], 'cannot be stratified'),
    'rebind_let': (['q(x) <-- e(x, y), let y = 3;'], ['q(x) <-- e(x, y), let _w = 3;'], 'shadows another variable'),
    'rebind_for': (['q(x) <-- e(x, y), for y in 0..3;'], ['q(x) <-- e(x, y), for _w in 0..3;'], 'shadows another variable'),
    'rebind_agg': (['q(x) <-- e(x, y), agg y = count() in z(_);'], ['q(x) <-- e(x, y), agg _w = count() in z(_);'], 'shadows another variable'),
    'rebind_iflet': (['q(x) <-- e(x, y), z(w), if let Some(y) = Some(w);'], ['q(x) <-- e(x, y), z(w), if let Some(_v) = Some(w);'], 'shadows another variable'),
    'rebind_iflet_at': (['q(x) <-- e(x, y), z(w), if let _whole @ Some(y) = Some(w);'], ['q(x) <-- e(x, y), z(w), if let _whole @ Some(_v) = Some(w);'], 'shadows another variable'),
    'rebind_let_at': (['q(x) <-- e(x, y), let _whole @ (y, _) = (3, 4);'], ['q(x) <-- e(x, y), let _whole @ (_v, _) = (3, 4);'], 'shadows another variable'),
    'rebind_for_at': (['q(x) <-- e(x, y), for _whole @ (y, _) in [(1, 2)];'], ['q(x) <-- e(x, y), for _whole @ (_v, _) in [(1, 2)];'], 'shadows another variable'),
    'rebind_for_first': (['q(x) <-- for x in 0..3, let x = 4;'], ['q(x) <-- for x in 0..3, let _w = 4;'], 'shadows another variable'),
    'attr_on_rule': (['#[inline] q(x) <-- e(x, _);'], ['q(x) <-- e(x, _);'], 'unexpected attribute'),
    'head_unbound_var': (['q(y) <-- e(x, _);'], ['q(x) <-- e(x, _);'], 'cannot find value `y` in this scope'),
    'head_wildcard': (['q(_) <-- e(_, _);'], ['q(1) <-- e(_, _);'], '`_` can only be used on the left-hand side'),
    'undefined_macro': (['q(x) <-- nomac!(x);'], ['q(x) <-- z(x);'], 'undefined macro'),
}
# the offending construct sits inside a disjunction branch, a second head, or comes out of an in-program macro
RULE_KINDS_M = {
    'undeclared_in_disj': ([], ['q(x) <-- e(x, _), (nope(x) | z(x));'], [], ['q(x) <-- e(x, _), (a1(x) | z(x));'], 'relation `nope` is not defined'),
    'undeclared_head_2nd': ([], ['q(x), nope(x) <-- e(x, _);'], [], ['q(x), z(x) <-- e(x, _);'], 'relation `nope` is not defined'),
    'undeclared_in_macro': (['macro mm($x: expr) { e($x, y), nope(y) }'], ['q(x) <-- mm!(x);'], ['macro mm($x: expr) { e($x, y), z(y) }'], ['q(x) <-- mm!(x);'], 'relation `nope` is not defined'),
    'undeclared_neg_in_disj': ([], ['q(x) <-- e(x, _), (!nope(x) | z(x));'], [], ['q(x) <-- e(x, _), (!a1(x) | z(x));'], 'relation `nope` is not defined'),
    'arity_in_disj': ([], ['q(x) <-- e(x, y), (z(y, y) | z(x));'], [], ['q(x) <-- e(x, y), (z(y) | z(x));'], 'wrong arity for relation `z`'),
    'arity_in_macro': (['macro mm($x: expr) { e($x) }'], ['q(x) <-- mm!(x);'], ['macro mm($x: expr) { e($x, _) }'], ['q(x) <-- mm!(x);'], 'wrong arity for relation `e`'),
    'arity_head_macro': (['macro hh($x: expr) { q($x, $x) }'], ['hh!(x) <-- e(x, _);'], ['macro hh($x: expr) { q($x) }'], ['hh!(x) <-- e(x, _);'], 'wrong arity for relation `q`'),
    'strat_multihead': ([], ['a1(x), a2(x) <-- e(x, _), !a2(x);'], [], ['a1(x), a2(x) <-- e(x, _), !z(x);'], 'cannot be stratified'),
    'strat_in_disj': ([], ['a1(x) <-- e(x, _), (z(x) | !a1(x));'], [], ['a1(x) <-- e(x, _), (z(x) | !a2(x));'], 'cannot be stratified'),
    'strat_in_macro': (['macro ng($x: expr) { !a1($x) }'], ['a1(x) <-- e(x, _), ng!(x);'], ['macro ng($x: expr) { !z($x) }'], ['a1(x) <-- e(x, _), ng!(x);'], 'cannot be stratified'),
    'strat_agg_multihead_cycle': ([], ['a1(x), a3(x) <-- e(x, _), agg _c = count() in a2(_);', 'a2(x) <-- a3(x);'], [], ['a1(x), a3(x) <-- e(x, _), agg _c = count() in z(_);', 'a2(x) <-- a3(x);'], 'cannot be stratified'),
    'rebind_in_disj': ([], ['q(x) <-- e(x, y), (z(y) | let y = 3);'], [], ['q(x) <-- e(x, y), (z(y) | let _w = 3);'], 'shadows another variable'),
    'rebind_pattern': ([], ['q(x) <-- e(x, y), p(x, ?y);'], [], ['q(x) <-- e(x, y), p(x, ?_w);'], 'shadows another variable'),
    'rebind_agg_bound': ([], ['q(x) <-- e(x, y), agg x = min(w) in p(y, w);'], [], ['q(x) <-- e(x, y), agg _m = min(w) in p(y, w);'], 'shadows another variable'),
    'rebind_iflet_attached': ([], ['q(x) <-- e(x, y), z(w) if let Some(x) = Some(w);'], [], ['q(x) <-- e(x, y), z(w) if let Some(_v) = Some(w);'], 'shadows another variable'),
    'macro_rec3': (['macro m1($x: expr) { z($x), m2!($x) }', 'macro m2($x: expr) { z($x), m3!($x) }', 'macro m3($x: expr) { z($x), m1!($x) }'], ['q(x) <-- m1!(x);'],
                   ['macro m1($x: expr) { z($x), m2!($x) }', 'macro m2($x: expr) { z($x), m3!($x) }', 'macro m3($x: expr) { z($x), a1($x) }'], ['q(x) <-- m1!(x);'], 'recursively defined Ascent macro'),
    'macro_rec_in_disj': (['macro mm($x: expr) { (z($x) | mm!($x)) }'], ['q(x) <-- mm!(x);'], ['macro mm($x: expr) { (z($x) | a1($x)) }'], ['q(x) <-- mm!(x);'], 'recursively defined Ascent macro'),
    'attr_on_relation': ([], [], [], [], None),
    'rebind_agg_boundarg': ([], ['q(x) <-- z(x), agg _m = min(x) in p(_, x);'], [], ['q(x) <-- z(x), agg _m = min(w) in p(_, w);'], 'shadows another variable'),
    'rebind_agg_boundarg_later': ([], ['q(y) <-- e(x, y), agg _c = count() in p(_, _), agg _m = max(x) in p(x, _);'], [], ['q(y) <-- e(x, y), agg _c = count() in p(_, _), agg _m = max(w) in p(w, _);'], 'shadows another variable'),
    # a macro that invokes itself twice per expansion (2^depth expansions if the recursion error is not looked at first)
    'macro_double_rec_head': (['macro hh($x: expr) { hh!($x), hh!($x) }'], ['hh!(x) <-- e(x, _);'], ['macro hh($x: expr) { q($x), z($x) }'], ['hh!(x) <-- e(x, _);'], 'recursively defined Ascent macro'),
    'macro_double_rec_disj': (['macro mm($x: expr) { (mm!($x) | mm!($x)) }'], ['q(x) <-- e(x, _), mm!(x);'], ['macro mm($x: expr) { (z($x) | a1($x)) }'], ['q(x) <-- e(x, _), mm!(x);'], 'recursively defined Ascent macro'),
    'macro_double_rec_body': (['macro mm($x: expr) { mm!($x), mm!($x) }'], ['q(x) <-- e(x, _), mm!(x);'], ['macro mm($x: expr) { z($x), a1($x) }'], ['q(x) <-- e(x, _), mm!(x);'], 'recursively defined Ascent macro'),
}
# cycles: every order of the rules of the cycle (the stratification check must not depend on rule order)
CYC2 = (['a1(x) <-- e(x, _), !a2(x);', 'a2(x) <-- a1(x);'], ['a1(x) <-- e(x, _), !z(x);', 'a2(x) <-- a1(x);'])
CYC2AGG = (['a1(x) <-- e(x, _), agg _c = count() in a2(_);', 'a2(x) <-- a1(x);'], ['a1(x) <-- e(x, _), agg _c = count() in z(_);', 'a2(x) <-- a1(x);'])
CYC3 = (['a1(x) <-- a3(x);', 'a2(x) <-- a1(x), !a3(x);', 'a3(x) <-- a2(x);'], ['a1(x) <-- a3(x);', 'a2(x) <-- a1(x), !z(x);', 'a3(x) <-- a2(x);'])
CYC3B = (['a1(x) <-- e(x, _), !a3(x);', 'a2(x) <-- a1(x);', 'a3(x) <-- a2(x);'], ['a1(x) <-- e(x, _), !z(x);', 'a2(x) <-- a1(x);', 'a3(x) <-- a2(x);'])

MACROS = ['ascent', 'ascent_par', 'ascent_run', 'ascent_run_par']


def program(macro, inner_attrs, decls, macros, rules):
    body = ''.join('      %s\n' % a for a in inner_attrs) + ''.join('      %s\n' % d for d in decls) + \
           ''.join('      %s\n' % m for m in macros) + ''.join('      %s\n' % r for r in rules)
    if macro in ('ascent', 'ascent_par'):
        return '   ascent::%s! {\n%s   }\n' % (macro, body)
    return '   pub fn run_it() -> usize {\n      let r = ascent::%s! {\n%s      };\n      r.q.len()\n   }\n' % (macro, body)


def place(base, extra, pos):
    b = list(base)
    return b[:pos] + list(extra) + b[pos:]


def main():
    out, tier = sys.argv[1], (sys.argv[2] if len(sys.argv) > 2 else 'quick')
    wits = []   # dict(name, macro, kind, bad_src, good_src, frag)

    def add(kind, variant, macro, bad, good, frag):
        wits.append({'name': 'w%03d_%s_%s_%s' % (len(wits), kind, variant, macro), 'kind': kind, 'variant': variant, 'macro': macro,
                     'bad': bad, 'good': good, 'frag': frag})

    positions = [0, 1, 3] if tier == 'thorough' else [1]
    macros_rule = MACROS if tier == 'thorough' else ['ascent', 'ascent_run_par']
    pre = 'use ascent::aggregators::*;\n'
    for kind, (bad, good, frag) in RULE_KINDS.items():
        for pos in positions:
            for m in macros_rule:
                add(kind, 'pos%d' % pos, m,
                    program(m, [], BASE_DECLS, [], place(BASE_RULES, bad, pos)),
                    program(m, [], BASE_DECLS, [], place(BASE_RULES, good, pos)), frag)
    for kind, (mb, bad, mg, good, frag) in RULE_KINDS_M.items():
        if frag is None:
            continue
        for pos in positions:
            for m in macros_rule:
                add(kind, 'pos%d' % pos, m,
                    program(m, [], BASE_DECLS, mb, place(BASE_RULES, bad, pos)),
                    program(m, [], BASE_DECLS, mg, place(BASE_RULES, good, pos)), frag)
    for m in macros_rule:
        add('attr_on_relation', 'x', m,
            program(m, [], place(BASE_DECLS, ['#[frobnicate] relation r3(i32);'], 2), [], BASE_RULES),
            program(m, [], place(BASE_DECLS, ['relation r3(i32);'], 2), [], BASE_RULES), 'frobnicate')
        add('attr_on_lattice', 'x', m,
            program(m, [], place(BASE_DECLS, ['#[frobnicate] lattice l3(i32, i32);'], 2), [], BASE_RULES),
            program(m, [], place(BASE_DECLS, ['lattice l3(i32, i32);'], 2), [], BASE_RULES), 'frobnicate')
    for m in macros_rule:
        add('attr_dangling', 'x', m,
            program(m, [], BASE_DECLS, [], BASE_RULES + ['#[frobnicate]']),
            program(m, [], BASE_DECLS, [], BASE_RULES), 'unexpected attribute')
    for m in ('ascent', 'ascent_par'):
        # attributes with nothing at all after them (the attributes ahead of the optional struct signature)
        add('attr_only', 'x', m, '   ascent::%s! {\n      #[frobnicate]\n   }\n' % m, '   ascent::%s! {\n   }\n' % m, 'unexpected attribute')
        add('attr_only_after_inner', 'x', m, '   ascent::%s! {\n      #![measure_rule_times]\n      #[frobnicate]\n   }\n' % m,
            '   ascent::%s! {\n      #![measure_rule_times]\n   }\n' % m, 'unexpected attribute')
        add('sig_name_mismatch', 'x', m,
            '   ascent::%s! {\n      pub struct WA; impl WB;\n%s%s   }\n' % (m, ''.join('      %s\n' % d for d in BASE_DECLS), ''.join('      %s\n' % r for r in BASE_RULES)),
            '   ascent::%s! {\n      pub struct WA; impl WA;\n%s%s   }\n' % (m, ''.join('      %s\n' % d for d in BASE_DECLS), ''.join('      %s\n' % r for r in BASE_RULES)),
            'identifiers of struct and impl must match')
        add('sig_generics_mismatch', 'x', m,
            '   ascent::%s! {\n      pub struct WG<T: Clone + Eq + std::hash::Hash + Sync + Send>; impl<U: Clone + Eq + std::hash::Hash + Sync + Send> WG<U>;\n      relation g(T);\n   }\n' % m,
            '   ascent::%s! {\n      pub struct WG<T: Clone + Eq + std::hash::Hash + Sync + Send>; impl<T: Clone + Eq + std::hash::Hash + Sync + Send> WG<T>;\n      relation g(T);\n   }\n' % m,
            'generic parameters of struct')
    for cname, (bad, good) in (('strat_cycle2', CYC2), ('strat_cycle2agg', CYC2AGG), ('strat_cycle3', CYC3), ('strat_cycle3b', CYC3B)):
        perms = list(itertools.permutations(range(len(bad))))
        if tier != 'thorough' and len(perms) > 3:
            perms = [perms[0], perms[3], perms[5]]
        for perm in perms:
            for m in (MACROS if tier == 'thorough' else ['ascent', 'ascent_par']):
                add(cname, 'order' + ''.join(map(str, perm)), m,
                    program(m, [], BASE_DECLS, [], BASE_RULES + [bad[i] for i in perm]),
                    program(m, [], BASE_DECLS, [], BASE_RULES + [good[i] for i in perm]), 'cannot be stratified')
    # in-program macros
    for m in macros_rule:
        add('macro_self_rec', 'x', m,
            program(m, [], BASE_DECLS, ['macro mm($x: expr) { e($x, y), mm!(y) }'], BASE_RULES + ['q(x) <-- mm!(x);']),
            program(m, [], BASE_DECLS, ['macro mm($x: expr) { e($x, y), z(y) }'], BASE_RULES + ['q(x) <-- mm!(x);']),
            'recursively defined Ascent macro')
        # .. also when no rule invokes the macro (the property speaks of a program that *defines* a self-referential macro)
        add('macro_self_rec_uninvoked', 'x', m,
            program(m, [], BASE_DECLS, ['macro mm($x: expr) { e($x, y), mm!(y) }'], BASE_RULES),
            program(m, [], BASE_DECLS, ['macro mm($x: expr) { e($x, y), z(y) }'], BASE_RULES),
            'recursively defined Ascent macro')
        add('macro_mutual_rec_uninvoked', 'x', m,
            program(m, [], BASE_DECLS, ['macro m1($x: expr) { e($x, y), m2!(y) }', 'macro m2($x: expr) { z($x), (p($x, _) | m1!($x)) }'], BASE_RULES + ['q(x) <-- z(x), if *x != 3;']),
            program(m, [], BASE_DECLS, ['macro m1($x: expr) { e($x, y), m2!(y) }', 'macro m2($x: expr) { z($x), (p($x, _) | z($x)) }'], BASE_RULES + ['q(x) <-- z(x), if *x != 3;']),
            'recursively defined Ascent macro')
        add('macro_mutual_rec', 'x', m,
            program(m, [], BASE_DECLS, ['macro m1($x: expr) { e($x, y), m2!(y) }', 'macro m2($x: expr) { z($x), m1!($x) }'], BASE_RULES + ['q(x) <-- m1!(x);']),
            program(m, [], BASE_DECLS, ['macro m1($x: expr) { e($x, y), m2!(y) }', 'macro m2($x: expr) { z($x), p($x, _) }'], BASE_RULES + ['q(x) <-- m1!(x);']),
            'recursively defined Ascent macro')
        add('macro_head_rec', 'x', m,
            program(m, [], BASE_DECLS, ['macro hh($x: expr) { q($x), hh!($x) }'], BASE_RULES + ['hh!(x) <-- e(x, _);']),
            program(m, [], BASE_DECLS, ['macro hh($x: expr) { q($x), z($x) }'], BASE_RULES + ['hh!(x) <-- e(x, _);']),
            'recursively defined Ascent macro')
        add('macro_missing_args', 'x', m,
            program(m, [], BASE_DECLS, ['macro mm($a: expr, $b: expr) { e($a, $b) }'], BASE_RULES + ['q(x) <-- mm!(x);']),
            program(m, [], BASE_DECLS, ['macro mm($a: expr, $b: expr) { e($a, $b) }'], BASE_RULES + ['q(x) <-- mm!(x, _y);']),
            'expected more arguments')
        add('attr_with_args', 'x', m,
            program(m, ['#![measure_rule_times(3)]'], BASE_DECLS, [], BASE_RULES),
            program(m, ['#![measure_rule_times]'], BASE_DECLS, [], BASE_RULES), 'unexpected token in attribute')
        add('attr_on_macro', 'x', m,
            program(m, [], BASE_DECLS, ['#[inline] macro mm($x: expr) { e($x, y), z(y) }'], BASE_RULES + ['q(x) <-- mm!(x);']),
            program(m, [], BASE_DECLS, ['macro mm($x: expr) { e($x, y), z(y) }'], BASE_RULES + ['q(x) <-- mm!(x);']),
            'unexpected attribute')
        # declarations / attributes
        for pos in ([0, 3, 7] if tier == 'thorough' else [3]):
            add('ds_on_lattice', 'pos%d' % pos, m,
                program(m, [], place(BASE_DECLS, ['#[ds(::ascent::rel)] lattice l(i32, i32);'], pos), [], BASE_RULES),
                program(m, [], place(BASE_DECLS, ['lattice l(i32, i32);'], pos), [], BASE_RULES),
                '`lattice`s cannot have custom data structure providers')
            add('empty_lattice', 'pos%d' % pos, m,
                program(m, [], place(BASE_DECLS, ['lattice l0();'], pos), [], BASE_RULES),
                program(m, [], place(BASE_DECLS, ['lattice l0(i32);'], pos), [], BASE_RULES),
                'empty lattice is not allowed')
            add('two_ds', 'pos%d' % pos, m,
                program(m, [], place(BASE_DECLS, ['#[ds(::ascent::rel)] #[ds(::ascent::rel)] relation r2(i32);'], pos), [], BASE_RULES),
                program(m, [], place(BASE_DECLS, ['#[ds(::ascent::rel)] relation r2(i32);'], pos), [], BASE_RULES),
                'multiple `ds` attributes specified')
        # unknown attributes of a relation / lattice declaration are handed on to the field of the generated struct, where rustc
        # rejects them - single identifiers and paths alike
        for pos in ([0, 3, 7] if tier == 'thorough' else [3]):
            for dk, decl in (('rel', 'relation r2(i32);'), ('lat', 'lattice l2(i32, i32);')):
                add('unknown_%s_attr' % dk, 'pos%d' % pos, m,
                    program(m, [], place(BASE_DECLS, ['#[frobnicate] ' + decl], pos), [], BASE_RULES),
                    program(m, [], place(BASE_DECLS, ['#[allow(unused)] ' + decl], pos), [], BASE_RULES), 'cannot find attribute')
                add('unknown_%s_attr_path' % dk, 'pos%d' % pos, m,
                    program(m, [], place(BASE_DECLS, ['#[bogus_tool::marker] ' + decl], pos), [], BASE_RULES),
                    program(m, [], place(BASE_DECLS, ['#[allow(unused)] ' + decl], pos), [], BASE_RULES), '`bogus_tool`')
        add('unknown_inner_attr', 'x', m,
            program(m, ['#![frobnicate]'], BASE_DECLS, [], BASE_RULES),
            program(m, ['#![measure_rule_times]'], BASE_DECLS, [], BASE_RULES), 'unrecognized attribute')
    for m, good_m in (('ascent', 'ascent_par'), ('ascent_run', 'ascent_run_par')):
        add('irp_serial', 'x', m,
            program(m, ['#![inter_rule_parallelism]'], BASE_DECLS, [], BASE_RULES),
            program(good_m, ['#![inter_rule_parallelism]'], BASE_DECLS, [], BASE_RULES), 'attribute only allowed in parallel Ascent')
    # include_source! inside ascent_source!
    src_ok = '   ascent::ascent_source! { base_src:\n      relation e(i32, i32);\n      relation q(i32);\n   }\n'
    add('include_in_source', 'x', 'ascent_source',
        src_ok + '   ascent::ascent_source! { bad_src:\n      include_source!(base_src);\n      q(x) <-- e(x, _);\n   }\n',
        src_ok + '   ascent::ascent_source! { good_src:\n      q(x) <-- e(x, _);\n   }\n   ascent::ascent! { struct P; include_source!(base_src); include_source!(good_src); }\n',
        '`ascent_source`s cannot contain `include_source!`')

    # inner attributes of a program that also has an include_source! (such a program is only validated in its second, re-invoked pass)
    uniq = [0]

    def inc_src():
        # ascent_source! defines an exported macro: its name must be unique in the twins crate
        uniq[0] += 1
        nm = 'wsrc%d' % uniq[0]
        return nm, '   ascent::ascent_source! { %s:\n      relation e(i32, i32);\n      relation q(i32);\n      q(x) <-- e(x, _);\n   }\n' % nm

    def inc_prog(macro, attrs, pos):
        items = ['relation z(i32);', 'z(x) <-- q(x);']
        nm, src = inc_src()
        items.insert(pos, 'include_source!(%s);' % nm)
        body = ''.join('      %s\n' % a for a in attrs) + ''.join('      %s\n' % i for i in items)
        if macro in ('ascent', 'ascent_par'):
            return src + '   ascent::%s! {\n%s   }\n' % (macro, body)
        return src + '   pub fn run_it() -> usize {\n      let r = ascent::%s! {\n%s      };\n      r.q.len()\n   }\n' % (macro, body)
    for m in macros_rule:
        for pos in ([0, 1, 2] if tier == 'thorough' else [1]):
            add('unknown_inner_attr_include', 'pos%d' % pos, m, inc_prog(m, ['#![frobnicate]'], pos), inc_prog(m, ['#![measure_rule_times]'], pos), 'unrecognized attribute')
            add('attr_with_args_include', 'pos%d' % pos, m, inc_prog(m, ['#![measure_rule_times(3)]'], pos), inc_prog(m, ['#![measure_rule_times]'], pos), 'unexpected token in attribute')
    for m, good_m in (('ascent', 'ascent_par'), ('ascent_run', 'ascent_run_par')):
        add('irp_serial_include', 'x', m, inc_prog(m, ['#![inter_rule_parallelism]'], 0), inc_prog(good_m, ['#![inter_rule_parallelism]'], 0), 'attribute only allowed in parallel Ascent')
    # the other violations next to an include_source! as well
    for m in macros_rule:
        def inc_rules(extra_decl, rule):
            nm, src = inc_src()
            body = '      include_source!(%s);\n      relation z(i32);\n%s      %s\n' % (nm, ''.join('      %s\n' % d for d in extra_decl), rule)
            if m in ('ascent', 'ascent_par'):
                return src + '   ascent::%s! {\n%s   }\n' % (m, body)
            return src + '   pub fn run_it() -> usize {\n      let r = ascent::%s! {\n%s      };\n      r.q.len()\n   }\n' % (m, body)
        add('undeclared_include', 'x', m, inc_rules([], 'z(x) <-- nope(x);'), inc_rules([], 'z(x) <-- q(x);'), 'relation `nope` is not defined')
        add('arity_include', 'x', m, inc_rules([], 'z(x) <-- e(x);'), inc_rules([], 'z(x) <-- e(x, _);'), 'wrong arity for relation `e`')
        add('strat_include', 'x', m, inc_rules([], 'z(x) <-- q(x), !z(x);'), inc_rules([], 'z(x) <-- q(x), !e(x, x);'), 'cannot be stratified')
        add('ds_on_lattice_include', 'x', m, inc_rules(['#[ds(::ascent::rel)] lattice l(i32, i32);'], 'z(x) <-- q(x);'), inc_rules(['lattice l(i32, i32);'], 'z(x) <-- q(x);'),
            '`lattice`s cannot have custom data structure providers')

    os.makedirs(out, exist_ok=True)
    members = []
    for w in wits:
        d = os.path.join(out, w['name'])
        os.makedirs(os.path.join(d, 'src'), exist_ok=True)
        open(os.path.join(d, 'Cargo.toml'), 'w').write(
            '[package]\nname = "%s"\nversion = "0.1.0"\nedition = "2021"\n[dependencies]\nascent = { path = "%s/ascent" }\n' % (w['name'], REPO))
        open(os.path.join(d, 'src', 'lib.rs'), 'w').write('#![allow(warnings)]\n' + pre + 'pub mod w {\n   use super::*;\n' + w['bad'] + '}\n')
        members.append(w['name'])
    d = os.path.join(out, 'twins')
    os.makedirs(os.path.join(d, 'src'), exist_ok=True)
    open(os.path.join(d, 'Cargo.toml'), 'w').write(
        '[package]\nname = "twins"\nversion = "0.1.0"\nedition = "2021"\n[dependencies]\nascent = { path = "%s/ascent" }\n' % REPO)
    src = ['#![allow(warnings)]', pre]
    for w in wits:
        src.append('pub mod %s {\n   use super::*;\n%s}\n' % (w['name'], w['good']))
    open(os.path.join(d, 'src', 'lib.rs'), 'w').write('\n'.join(src))
    members.append('twins')
    open(os.path.join(out, 'Cargo.toml'), 'w').write('[workspace]\nresolver = "2"\nmembers = [%s]\n' % ', '.join('"%s"' % m for m in members))
    json.dump([{k: v for k, v in w.items() if k not in ('bad', 'good')} for w in wits], open(os.path.join(out, 'witnesses.json'), 'w'), indent=1)
    print('%d witnesses (%s)' % (len(wits), tier))


if __name__ == '__main__':
    main()
