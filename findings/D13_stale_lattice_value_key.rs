use ascent::ascent;
ascent! {
   struct P;
   relation inp(u32, u32);
   relation step(u32);
   lattice best(u32, u32);        // max lattice on u32
   relation probev(u32);
   relation byval_in(u32, u32);
   relation byval_after(u32, u32);
   relation never(u32);
   best(x, v) <-- inp(x, v);
   best(x, v + 1) <-- best(x, v), step(v);
   byval_in(x, v) <-- probev(v), best(x, v);
   best(x, 0) <-- byval_in(x, _), never(x);
}
ascent! {
   struct Q;
   relation inp(u32, u32);
   relation step(u32);
   lattice best(u32, u32);
   relation probev(u32);
   relation byval_after(u32, u32);
   best(x, v) <-- inp(x, v);
   best(x, v + 1) <-- best(x, v), step(v);
   byval_after(x, v) <-- probev(v), best(x, v);
}
fn main() {
   let mut p = P::default(); p.inp = vec![(1, 1)]; p.step = vec![(1,), (2,), (3,)]; p.probev = vec![(1,), (2,), (3,), (4,)]; p.run();
   println!("best = {:?}", p.best);
   let mut v = p.byval_in.clone(); v.sort(); println!("byval_in (same stratum) = {:?}   (transient values are legitimately seen here)", v);
   let mut q = Q::default(); q.inp = vec![(1, 1)]; q.step = vec![(1,), (2,), (3,)]; q.probev = vec![(1,), (2,), (3,), (4,)]; q.run();
   println!("best = {:?}", q.best);
   println!("byval_after (later stratum) = {:?}   expected [(1, 4)]", q.byval_after);
}
