use ascent::ascent;
ascent! {
   struct P;
   relation inp(i32, i32);
   lattice best(i32, i32);
   relation cand(i32, i32);
   relation miss(i32, i32);
   relation n_exact(i32, usize);
   best(x, *y) <-- inp(x, y);
   miss(x, v) <-- cand(x, v), !best(x, v);
   n_exact(x, c) <-- cand(x, v), agg c = ascent::aggregators::count() in best(x, v);
}
fn main() {
   let mut p = P::default(); p.inp = vec![(1, 5), (1, 3), (2, 7)]; p.cand = vec![(1, 5), (1, 3), (2, 7), (3, 1)]; p.run();
   println!("best = {:?}", p.best);
   println!("miss = {:?}   expected [(1, 3), (3, 1)]", p.miss);
   println!("n_exact = {:?}  expected (1,1) for v=5, (1,0) for v=3, (2,1), (3,0)", p.n_exact);
}
