// ascent-facts: a rustc_private driver that dumps the type-checked HIR ("facts") of selected
// crates as JSON. It never runs any code of the crates it analyses.
//
// Usage (as RUSTC_WORKSPACE_WRAPPER): ascent-facts <rustc> <rustc args...>
//   env ASCENT_FACTS_OUT    = directory where <crate>.facts.json files are written
//   env ASCENT_FACTS_CRATES = comma separated crate names to dump (prefix match with trailing '*')
#![feature(rustc_private)]
#![allow(rustc::internal)]

extern crate rustc_ast;
extern crate rustc_ast_pretty;
extern crate rustc_driver;
extern crate rustc_hir;
extern crate rustc_interface;
extern crate rustc_middle;
extern crate rustc_session;
extern crate rustc_span;

mod json;
use json::J;

use rustc_driver::{Callbacks, Compilation};
use rustc_hir as hir;
use rustc_hir::def::{DefKind, Res};
use rustc_hir::def_id::{DefId, LocalDefId};
use rustc_interface::interface;
use rustc_middle::ty::print::PrintTraitRefExt;
use rustc_middle::ty::{self, Instance, TyCtxt, TypeckResults, TypingEnv};
use rustc_span::Span;
use std::collections::HashMap;

struct Cb;

fn wanted(name: &str, src: &str) -> bool {
   if let Ok(list) = std::env::var("ASCENT_FACTS_CRATES") {
      if list.split(',').any(|p| {
         let p = p.trim();
         if let Some(pre) = p.strip_suffix('*') { name.starts_with(pre) } else { name == p }
      }) {
         return true;
      }
   }
   // or: every crate whose root source file lies below one of the given directories
   if let Ok(roots) = std::env::var("ASCENT_FACTS_ROOTS") {
      if roots.split(',').any(|r| !r.trim().is_empty() && src.starts_with(r.trim())) {
         return true;
      }
   }
   false
}

impl Callbacks for Cb {
   fn config(&mut self, _config: &mut interface::Config) {}
   fn after_analysis<'tcx>(&mut self, _compiler: &interface::Compiler, tcx: TyCtxt<'tcx>) -> Compilation {
      let krate = tcx.crate_name(rustc_hir::def_id::LOCAL_CRATE).to_string();
      let src = match tcx.sess.local_crate_source_file() {
         Some(f) => {
            let p = f.local_path().map(|p| p.to_path_buf());
            match p {
               Some(p) => std::fs::canonicalize(&p).unwrap_or(p).to_string_lossy().to_string(),
               None => String::new(),
            }
         },
         None => String::new(),
      };
      if !wanted(&krate, &src) {
         return Compilation::Continue;
      }
      let out_dir = std::env::var("ASCENT_FACTS_OUT").expect("ASCENT_FACTS_OUT not set");
      let mut d = Dumper { tcx, src: src.clone(), strs: Vec::new(), str_ix: HashMap::new(), files: Vec::new(), file_ix: HashMap::new() };
      let facts = rustc_middle::ty::print::with_no_trimmed_paths!(d.dump_crate(&krate));
      // distinguish lib / test / example targets of one package by crate type + a hash of the src path
      let kind = if tcx.sess.opts.test { "test" } else { "lib" };
      let mut h: u64 = 0xcbf29ce484222325;
      for b in src.bytes() {
         h = (h ^ b as u64).wrapping_mul(0x100000001b3);
      }
      let path = format!("{}/{}.{}.{:08x}.facts.json", out_dir, krate, kind, (h & 0xffff_ffff) as u32);
      let mut s = String::with_capacity(1 << 20);
      facts.write(&mut s);
      std::fs::write(&path, s).expect("cannot write facts");
      Compilation::Continue
   }
}

struct Dumper<'tcx> {
   tcx: TyCtxt<'tcx>,
   src: String,
   strs: Vec<String>,
   str_ix: HashMap<String, usize>,
   files: Vec<String>,
   file_ix: HashMap<String, usize>,
}

fn obj(v: Vec<(&'static str, J)>) -> J { J::Obj(v) }
fn s(x: impl Into<String>) -> J { J::Str(x.into()) }

impl<'tcx> Dumper<'tcx> {
   fn intern(&mut self, st: String) -> J {
      if let Some(&i) = self.str_ix.get(&st) {
         return J::Num(i as i64);
      }
      let i = self.strs.len();
      self.str_ix.insert(st.clone(), i);
      self.strs.push(st);
      J::Num(i as i64)
   }

   fn span(&mut self, sp: Span) -> J {
      let sm = self.tcx.sess.source_map();
      let exp = sp.from_expansion();
      // the location reported is the one of the innermost span (for proc-macro output with
      // quote_spanned! this is the user's token span)
      let lo = sm.lookup_char_pos(sp.lo());
      let hi = sm.lookup_char_pos(sp.hi());
      let fname = format!("{}", lo.file.name.prefer_local_unconditionally());
      let fi = if let Some(&i) = self.file_ix.get(&fname) {
         i
      } else {
         let i = self.files.len();
         self.file_ix.insert(fname.clone(), i);
         self.files.push(fname);
         i
      };
      let mut v = vec![
         J::Num(fi as i64),
         J::Num(lo.line as i64),
         J::Num(lo.col.0 as i64),
         J::Num(hi.line as i64),
         J::Num(hi.col.0 as i64),
         J::Num(exp as i64),
      ];
      if exp {
         let ed = sp.ctxt().outer_expn_data();
         let name = match ed.kind {
            rustc_span::ExpnKind::Macro(_, name) => name.to_string(),
            rustc_span::ExpnKind::Desugaring(k) => format!("desugar:{:?}", k),
            rustc_span::ExpnKind::AstPass(k) => format!("astpass:{:?}", k),
            rustc_span::ExpnKind::Root => "root".to_string(),
         };
         v.push(self.intern(name));
      }
      J::Arr(v)
   }

   fn snippet(&self, sp: Span) -> Option<String> {
      let mut sp = sp;
      if sp.from_expansion() {
         // compiler desugarings (`a..b`, `for`, `?`) keep pointing at user text; macro expansions do not - except the expansion of
         // a function-like macro that the user wrote inside the program (`vec![*x]`): its text is the invocation
         let ed = sp.ctxt().outer_expn_data();
         match ed.kind {
            rustc_span::ExpnKind::Desugaring(_) => {},
            rustc_span::ExpnKind::Macro(rustc_span::MacroKind::Bang, name)
               if !name.as_str().starts_with("ascent") && !ed.call_site.from_expansion() =>
            {
               sp = ed.call_site;
            },
            _ => return None,
         }
      }
      let sm = self.tcx.sess.source_map();
      sm.span_to_snippet(sp).ok().filter(|x| x.len() <= 200)
   }

   fn ty(&mut self, t: ty::Ty<'tcx>) -> J {
      let st = format!("{}", t);
      self.intern(st)
   }

   fn def_path(&self, did: DefId) -> String { self.tcx.def_path_str(did) }

   fn dump_crate(&mut self, krate: &str) -> J {
      let tcx = self.tcx;
      let mut bodies = vec![];
      for owner in tcx.hir_body_owners() {
         let dk = tcx.def_kind(owner);
         match dk {
            DefKind::Fn | DefKind::AssocFn | DefKind::Const { .. } | DefKind::AssocConst { .. } | DefKind::Static { .. } => {},
            _ => continue, // closures are dumped inline in their parent; anon consts skipped
         }
         bodies.push(self.dump_body_owner(owner, dk));
      }
      let mut adts = vec![];
      let mut impls = vec![];
      let mut statics = vec![];
      let mut macros = vec![];
      let mut traits = vec![];
      for id in tcx.hir_free_items() {
         let item = tcx.hir_item(id);
         let did = item.owner_id.def_id;
         match &item.kind {
            hir::ItemKind::Struct(..) | hir::ItemKind::Enum(..) | hir::ItemKind::Union(..) => {
               let adt = tcx.adt_def(did.to_def_id());
               let mut variants = vec![];
               for v in adt.variants() {
                  let mut fields = vec![];
                  for f in v.fields.iter() {
                     let fty = tcx.type_of(f.did).instantiate_identity().skip_normalization();
                     let vis_pub = tcx.visibility(f.did).is_public();
                     fields.push(obj(vec![("n", s(f.name.to_string())), ("ty", self.ty(fty)), ("pub", J::Bool(vis_pub))]));
                  }
                  variants.push(obj(vec![("n", s(v.name.to_string())), ("fields", J::Arr(fields))]));
               }
               adts.push(obj(vec![
                  ("path", s(self.def_path(did.to_def_id()))),
                  ("kind", s(if adt.is_enum() { "enum" } else if adt.is_union() { "union" } else { "struct" })),
                  ("variants", J::Arr(variants)),
                  ("sp", self.span(item.span)),
               ]));
            },
            hir::ItemKind::Impl(imp) => {
               let self_ty = tcx.type_of(did.to_def_id()).instantiate_identity().skip_normalization();
               let tr = tcx.impl_opt_trait_ref(did.to_def_id()).map(|t| t.instantiate_identity().skip_normalization());
               let mut methods = vec![];
               for ai in tcx.associated_items(did.to_def_id()).in_definition_order() {
                  methods.push(obj(vec![
                     ("n", s(ai.name().to_string())),
                     ("path", s(self.def_path(ai.def_id))),
                     ("kind", s(format!("{:?}", ai.kind).split(|c: char| !c.is_alphanumeric()).next().unwrap_or("").to_string())),
                  ]));
               }
               let _ = imp;
               impls.push(obj(vec![
                  ("path", s(self.def_path(did.to_def_id()))),
                  ("self_ty", self.ty(self_ty)),
                  ("trait", match tr { Some(t) => s(format!("{}", t.print_only_trait_path())), None => J::Null }),
                  ("trait_def", match tr { Some(t) => s(self.def_path(t.def_id)), None => J::Null }),
                  ("items", J::Arr(methods)),
                  ("sp", self.span(item.span)),
               ]));
            },
            hir::ItemKind::Trait { .. } => {
               let mut methods = vec![];
               for ai in tcx.associated_items(did.to_def_id()).in_definition_order() {
                  methods.push(obj(vec![
                     ("n", s(ai.name().to_string())),
                     ("path", s(self.def_path(ai.def_id))),
                     ("has_default", J::Bool(ai.defaultness(tcx).has_value())),
                  ]));
               }
               traits.push(obj(vec![("path", s(self.def_path(did.to_def_id()))), ("items", J::Arr(methods))]));
            },
            hir::ItemKind::Static(m, ..) => {
               let t = tcx.type_of(did.to_def_id()).instantiate_identity().skip_normalization();
               statics.push(obj(vec![
                  ("path", s(self.def_path(did.to_def_id()))),
                  ("mutable", J::Bool(matches!(m, hir::Mutability::Mut))),
                  ("ty", self.ty(t)),
                  ("sp", self.span(item.span)),
               ]));
            },
            hir::ItemKind::Macro(ident, mdef, _) => {
               let body = rustc_ast_pretty::pprust::tts_to_string(&mdef.body.tokens);
               macros.push(obj(vec![("n", s(ident.name.to_string())), ("body", s(body)), ("sp", self.span(item.span))]));
            },
            _ => {},
         }
      }
      // statics declared inside function bodies are not free items of interest here, but count them:
      let mut nested_statics = vec![];
      for did in tcx.hir_crate_items(()).definitions() {
         if let DefKind::Static { mutability, nested, .. } = tcx.def_kind(did) {
            let t = tcx.type_of(did.to_def_id()).instantiate_identity().skip_normalization();
            nested_statics.push(obj(vec![
               ("path", s(self.def_path(did.to_def_id()))),
               ("mutable", J::Bool(matches!(mutability, hir::Mutability::Mut))),
               ("nested", J::Bool(nested)),
               ("ty", self.ty(t)),
               ("sp", self.span(tcx.def_span(did))),
            ]));
         }
      }
      let strs = std::mem::take(&mut self.strs);
      let files = std::mem::take(&mut self.files);
      obj(vec![
         ("crate", s(krate)),
         ("src", s(self.src.clone())),
         ("is_test", J::Bool(tcx.sess.opts.test)),
         ("files", J::Arr(files.into_iter().map(J::Str).collect())),
         ("adts", J::Arr(adts)),
         ("impls", J::Arr(impls)),
         ("traits", J::Arr(traits)),
         ("statics", J::Arr(statics)),
         ("all_statics", J::Arr(nested_statics)),
         ("macros", J::Arr(macros)),
         ("bodies", J::Arr(bodies)),
         ("strs", J::Arr(strs.into_iter().map(J::Str).collect())),
      ])
   }

   fn dump_body_owner(&mut self, owner: LocalDefId, dk: DefKind) -> J {
      let tcx = self.tcx;
      let body = tcx.hir_body_owned_by(owner);
      let tr = tcx.typeck(owner);
      let mut cx = BodyCx { owner, tr };
      let params: Vec<J> = body.params.iter().map(|p| self.pat(&mut cx, p.pat)).collect();
      let tree = self.expr(&mut cx, body.value);
      // impl / trait context
      let parent = tcx.local_parent(owner);
      let pk = tcx.def_kind(parent);
      let (impl_of, trait_of) = match pk {
         DefKind::Impl { .. } => (
            Some(self.def_path(parent.to_def_id())),
            tcx.impl_opt_trait_ref(parent.to_def_id()).map(|t| self.def_path(t.skip_binder().def_id)),
         ),
         DefKind::Trait => (None, Some(self.def_path(parent.to_def_id()))),
         _ => (None, None),
      };
      let vis = match dk {
         DefKind::Fn | DefKind::AssocFn => Some(tcx.visibility(owner.to_def_id()).is_public()),
         _ => None,
      };
      let unsafe_fn = match dk {
         DefKind::Fn | DefKind::AssocFn => {
            let sig = tcx.fn_sig(owner.to_def_id()).instantiate_identity().skip_normalization();
            Some(sig.safety().is_unsafe())
         },
         _ => None,
      };
      let ret_ty = match dk {
         DefKind::Fn | DefKind::AssocFn => {
            let sig = tcx.fn_sig(owner.to_def_id()).instantiate_identity().skip_normalization();
            Some(self.ty(sig.output().skip_binder()))
         },
         _ => None,
      };
      obj(vec![
         ("path", s(self.def_path(owner.to_def_id()))),
         ("name", s(tcx.item_name(owner.to_def_id()).to_string())),
         ("kind", s(format!("{:?}", dk).split(|c: char| !c.is_alphanumeric()).next().unwrap_or("").to_string())),
         ("impl_of", impl_of.map(s).unwrap_or(J::Null)),
         ("trait_of", trait_of.map(s).unwrap_or(J::Null)),
         ("pub", vis.map(J::Bool).unwrap_or(J::Null)),
         ("unsafe", unsafe_fn.map(J::Bool).unwrap_or(J::Null)),
         ("ret", ret_ty.unwrap_or(J::Null)),
         ("sp", self.span(tcx.def_span(owner))),
         ("params", J::Arr(params)),
         ("tree", tree),
      ])
   }

   fn res(&mut self, cx: &mut BodyCx<'tcx>, res: Res, hir_id: hir::HirId) -> Vec<(&'static str, J)> {
      match res {
         Res::Local(id) => {
            vec![
               ("res", s("local")),
               ("id", J::Num(((id.owner.def_id.local_def_index.as_u32() as i64) << 24) | id.local_id.as_u32() as i64)),
               ("n", s(self.tcx.hir_name(id).to_string())),
            ]
         },
         Res::Def(kind, did) => {
            let mut v = vec![
               ("res", s("def")),
               ("dk", s(format!("{:?}", kind).split(|c: char| !c.is_alphanumeric()).next().unwrap_or("").to_string())),
               ("d", s(self.def_path(did))),
            ];
            if matches!(kind, DefKind::Fn | DefKind::AssocFn) {
               let args = cx.tr.node_args(hir_id);
               if let Some(c) = self.callee(cx, did, args) {
                  v.push(("c", c));
               }
            }
            if let DefKind::Ctor(..) = kind {
               // parent = variant or struct
               let p = self.tcx.parent(did);
               v.push(("ctor_of", s(self.def_path(p))));
            }
            v
         },
         Res::SelfCtor(did) => vec![("res", s("selfctor")), ("d", s(self.def_path(did)))],
         Res::SelfTyAlias { alias_to, .. } => vec![("res", s("selfty")), ("d", s(self.def_path(alias_to)))],
         Res::SelfTyParam { .. } => vec![("res", s("selftyparam"))],
         Res::PrimTy(p) => vec![("res", s("prim")), ("n", s(p.name_str()))],
         Res::ToolMod | Res::NonMacroAttr(_) | Res::OpenMod(_) => vec![("res", s("other"))],
         Res::Err => vec![("res", s("err"))],
      }
   }

   fn callee(&mut self, cx: &mut BodyCx<'tcx>, did: DefId, args: ty::GenericArgsRef<'tcx>) -> Option<J> {
      let tcx = self.tcx;
      let dk = tcx.def_kind(did);
      if !matches!(dk, DefKind::Fn | DefKind::AssocFn) {
         return None;
      }
      let mut v = vec![("d", s(self.def_path(did))), ("g", self.intern(format!("{:?}", args)))];
      // trait or impl the item belongs to
      if dk == DefKind::AssocFn {
         let parent = tcx.parent(did);
         match tcx.def_kind(parent) {
            DefKind::Trait => {
               v.push(("trait", s(self.def_path(parent))));
               if args.len() > 0 {
                  if let Some(t) = args.get(0).and_then(|a| a.as_type()) {
                     v.push(("self", self.ty(t)));
                  }
               }
            },
            DefKind::Impl { .. } => {
               v.push(("impl", s(self.def_path(parent))));
               if let Some(tr) = tcx.impl_opt_trait_ref(parent) {
                  v.push(("trait", s(self.def_path(tr.skip_binder().def_id))));
               }
            },
            _ => {},
         }
      }
      let env = TypingEnv::post_analysis(tcx, cx.owner);
      // erase regions: resolution does not care and late-bound regions would ICE
      let args_e = tcx.erase_and_anonymize_regions(args);
      let has_infer = {
         use rustc_middle::ty::TypeVisitableExt;
         args_e.has_infer() || args_e.has_escaping_bound_vars()
      };
      let arity_ok = tcx.generics_of(did).count() == args_e.len();
      if !has_infer && arity_ok {
         if let Ok(Some(inst)) = Instance::try_resolve(tcx, env, did, args_e) {
            let idid = inst.def_id();
            v.push(("i", s(self.def_path(idid))));
            v.push(("ig", self.intern(format!("{:?}", inst.args))));
            v.push(("ik", s(match inst.def {
               ty::InstanceKind::Item(_) => "item",
               ty::InstanceKind::Virtual(..) => "virtual",
               ty::InstanceKind::ClosureOnceShim { .. } => "closure_once",
               ty::InstanceKind::FnPtrShim(..) => "fnptr",
               ty::InstanceKind::CloneShim(..) => "clone_shim",
               ty::InstanceKind::DropGlue(..) => "drop",
               ty::InstanceKind::Intrinsic(_) => "intrinsic",
               _ => "other",
            })));
            if tcx.def_kind(idid) == DefKind::AssocFn {
               let parent = tcx.parent(idid);
               if let DefKind::Impl { .. } = tcx.def_kind(parent) {
                  v.push(("iimpl", s(self.def_path(parent))));
                  let ity = tcx.type_of(parent).instantiate(tcx, inst.args).skip_normalization();
                  v.push(("iself", self.ty(ity)));
               }
            }
            // "peeled" resolution: the workspace forwards most index traits from `&T` / `&mut T` to `T`
            // (ascent::rel_index_boilerplate); resolve the same trait method for the referent as well.
            if dk == DefKind::AssocFn && tcx.def_kind(tcx.parent(did)) == DefKind::Trait && args_e.len() > 0 {
               if let Some(mut st) = args_e[0].as_type() {
                  let mut peeled = false;
                  while let ty::Ref(_, inner, _) = *st.kind() {
                     st = inner;
                     peeled = true;
                  }
                  if peeled {
                     let mut nv: Vec<ty::GenericArg<'tcx>> = args_e.iter().collect();
                     nv[0] = st.into();
                     let nargs = tcx.mk_args(&nv);
                     let ok = std::panic::catch_unwind(std::panic::AssertUnwindSafe(|| Instance::try_resolve(tcx, env, did, nargs)));
                     if let Ok(Ok(Some(pinst))) = ok {
                        let pd = pinst.def_id();
                        v.push(("pi", s(self.def_path(pd))));
                        v.push(("pself", self.ty(st)));
                        if tcx.def_kind(pd) == DefKind::AssocFn {
                           let pp = tcx.parent(pd);
                           if let DefKind::Impl { .. } = tcx.def_kind(pp) {
                              v.push(("pimpl", s(self.def_path(pp))));
                           }
                        }
                     }
                  }
               }
            }
         }
      }
      Some(obj(v))
   }

   fn qpath(&mut self, cx: &mut BodyCx<'tcx>, qp: &hir::QPath<'tcx>, hir_id: hir::HirId) -> Vec<(&'static str, J)> {
      let res = cx.tr.qpath_res(qp, hir_id);
      self.res(cx, res, hir_id)
   }

   fn block(&mut self, cx: &mut BodyCx<'tcx>, b: &'tcx hir::Block<'tcx>) -> J {
      let mut ss = vec![];
      for st in b.stmts {
         match st.kind {
            hir::StmtKind::Let(l) => {
               let mut v = vec![("k", s("let")), ("p", self.pat(cx, l.pat)), ("sp", self.span(st.span))];
               if l.ty.is_some() {
                  v.push(("ann", J::Bool(true)));
               }
               if let Some(i) = l.init {
                  v.push(("i", self.expr(cx, i)));
               }
               if let Some(e) = l.els {
                  v.push(("els", self.block(cx, e)));
               }
               if !matches!(l.source, hir::LocalSource::Normal) {
                  v.push(("src", s(format!("{:?}", l.source))));
               }
               ss.push(obj(v));
            },
            hir::StmtKind::Item(_) => ss.push(obj(vec![("k", s("item"))])),
            hir::StmtKind::Expr(e) => ss.push(obj(vec![("k", s("expr")), ("e", self.expr(cx, e))])),
            hir::StmtKind::Semi(e) => ss.push(obj(vec![("k", s("semi")), ("e", self.expr(cx, e))])),
         }
      }
      let mut v = vec![("k", s("block")), ("ss", J::Arr(ss))];
      if let Some(e) = b.expr {
         v.push(("e", self.expr(cx, e)));
      }
      if matches!(b.rules, hir::BlockCheckMode::UnsafeBlock(_)) {
         v.push(("unsafe", J::Bool(true)));
      }
      v.push(("sp", self.span(b.span)));
      obj(v)
   }

   fn expr(&mut self, cx: &mut BodyCx<'tcx>, e: &'tcx hir::Expr<'tcx>) -> J {
      use hir::ExprKind as K;
      let tcx = self.tcx;
      // DropTemps / Use wrappers are transparent
      if let K::DropTemps(inner) = e.kind {
         return self.expr(cx, inner);
      }
      let mut v: Vec<(&'static str, J)> = vec![];
      let kind: &'static str;
      match e.kind {
         K::Call(f, args) => {
            kind = "call";
            v.push(("f", self.expr(cx, f)));
            v.push(("a", J::Arr(args.iter().map(|a| self.expr(cx, a)).collect())));
            // overloaded call (Fn traits) on a non-path callee
            if let Some(did) = cx.tr.type_dependent_def_id(e.hir_id) {
               let args = cx.tr.node_args(e.hir_id);
               if let Some(c) = self.callee(cx, did, args) {
                  v.push(("oc", c));
               }
            }
         },
         K::MethodCall(seg, recv, args, _) => {
            kind = "mcall";
            v.push(("m", s(seg.ident.name.to_string())));
            v.push(("r", self.expr(cx, recv)));
            v.push(("a", J::Arr(args.iter().map(|a| self.expr(cx, a)).collect())));
            if let Some(did) = cx.tr.type_dependent_def_id(e.hir_id) {
               let ga = cx.tr.node_args(e.hir_id);
               if let Some(c) = self.callee(cx, did, ga) {
                  v.push(("c", c));
               }
            }
            // adjusted receiver type (after autoref/deref)
            if let Some(t) = cx.tr.expr_ty_adjusted_opt(recv) {
               v.push(("rt", self.ty(t)));
            }
         },
         K::Path(ref qp) => {
            kind = "path";
            let r = self.qpath(cx, qp, e.hir_id);
            v.extend(r);
         },
         K::Field(b, ident) => {
            kind = "field";
            v.push(("e", self.expr(cx, b)));
            v.push(("n", s(ident.name.to_string())));
         },
         K::Tup(es) => {
            kind = "tup";
            v.push(("es", J::Arr(es.iter().map(|a| self.expr(cx, a)).collect())));
         },
         K::Array(es) => {
            kind = "array";
            v.push(("es", J::Arr(es.iter().map(|a| self.expr(cx, a)).collect())));
         },
         K::AddrOf(bk, m, inner) => {
            kind = "addr";
            v.push(("mut", J::Bool(matches!(m, hir::Mutability::Mut))));
            if !matches!(bk, hir::BorrowKind::Ref) {
               v.push(("raw", J::Bool(true)));
            }
            v.push(("e", self.expr(cx, inner)));
         },
         K::Unary(op, inner) => {
            kind = "unary";
            v.push(("op", s(match op {
               hir::UnOp::Deref => "deref",
               hir::UnOp::Not => "not",
               hir::UnOp::Neg => "neg",
            })));
            v.push(("e", self.expr(cx, inner)));
            if let Some(did) = cx.tr.type_dependent_def_id(e.hir_id) {
               let ga = cx.tr.node_args(e.hir_id);
               if let Some(c) = self.callee(cx, did, ga) {
                  v.push(("c", c));
               }
            }
         },
         K::Binary(op, l, r) => {
            kind = "binary";
            v.push(("op", s(op.node.as_str())));
            v.push(("l", self.expr(cx, l)));
            v.push(("r", self.expr(cx, r)));
            if let Some(did) = cx.tr.type_dependent_def_id(e.hir_id) {
               let ga = cx.tr.node_args(e.hir_id);
               if let Some(c) = self.callee(cx, did, ga) {
                  v.push(("c", c));
               }
            }
         },
         K::Lit(lit) => {
            kind = "lit";
            let txt = match lit.node {
               rustc_ast::LitKind::Str(sym, _) => format!("{:?}", sym.as_str()),
               rustc_ast::LitKind::Int(n, _) => format!("{}", n.get()),
               rustc_ast::LitKind::Bool(b) => format!("{}", b),
               rustc_ast::LitKind::Char(c) => format!("{:?}", c),
               rustc_ast::LitKind::Float(sym, _) => sym.to_string(),
               _ => "<lit>".to_string(),
            };
            v.push(("v", s(txt)));
         },
         K::Cast(inner, _) => {
            kind = "cast";
            v.push(("e", self.expr(cx, inner)));
         },
         K::Type(inner, _) => {
            kind = "type";
            v.push(("e", self.expr(cx, inner)));
         },
         K::Let(l) => {
            kind = "let";
            v.push(("p", self.pat(cx, l.pat)));
            v.push(("i", self.expr(cx, l.init)));
         },
         K::If(c, t, el) => {
            kind = "if";
            v.push(("c", self.expr(cx, c)));
            v.push(("th", self.expr(cx, t)));
            if let Some(el) = el {
               v.push(("el", self.expr(cx, el)));
            }
         },
         K::Loop(b, label, src, _) => {
            kind = "loop";
            v.push(("b", self.block(cx, b)));
            v.push(("src", s(match src {
               hir::LoopSource::Loop => "loop",
               hir::LoopSource::While => "while",
               hir::LoopSource::ForLoop => "for",
            })));
            if let Some(l) = label {
               v.push(("label", s(l.ident.name.to_string())));
            }
         },
         K::Match(scrut, arms, src) => {
            kind = "match";
            v.push(("e", self.expr(cx, scrut)));
            let mut as_ = vec![];
            for a in arms {
               let mut av = vec![("p", self.pat(cx, a.pat)), ("b", self.expr(cx, a.body))];
               if let Some(g) = a.guard {
                  av.push(("g", self.expr(cx, g)));
               }
               as_.push(obj(av));
            }
            v.push(("arms", J::Arr(as_)));
            v.push(("src", s(match src {
               hir::MatchSource::Normal => "normal".to_string(),
               hir::MatchSource::ForLoopDesugar => "for".to_string(),
               hir::MatchSource::TryDesugar(_) => "try".to_string(),
               other => format!("{:?}", other),
            })));
         },
         K::Closure(c) => {
            kind = "closure";
            let body = tcx.hir_body(c.body);
            v.push(("ps", J::Arr(body.params.iter().map(|p| self.pat(cx, p.pat)).collect())));
            v.push(("move", J::Bool(matches!(c.capture_clause, hir::CaptureBy::Value { .. }))));
            v.push(("def", s(self.def_path(c.def_id.to_def_id()))));
            v.push(("b", self.expr(cx, body.value)));
         },
         K::Block(b, label) => {
            // flatten: a block expr is represented by the block object itself
            let mut bj = self.block(cx, b);
            if let J::Obj(ref mut bv) = bj {
               bv.push(("t", self.ty(cx.tr.expr_ty(e))));
               if let Some(l) = label {
                  bv.push(("label", s(l.ident.name.to_string())));
               }
               if let Some(sn) = self.snippet(e.span) {
                  bv.push(("snip", s(sn)));
               }
            }
            return bj;
         },
         K::Assign(l, r, _) => {
            kind = "assign";
            v.push(("l", self.expr(cx, l)));
            v.push(("r", self.expr(cx, r)));
         },
         K::AssignOp(op, l, r) => {
            kind = "assignop";
            v.push(("op", s(op.node.as_str())));
            v.push(("l", self.expr(cx, l)));
            v.push(("r", self.expr(cx, r)));
            if let Some(did) = cx.tr.type_dependent_def_id(e.hir_id) {
               let ga = cx.tr.node_args(e.hir_id);
               if let Some(c) = self.callee(cx, did, ga) {
                  v.push(("c", c));
               }
            }
         },
         K::Index(b, i, _) => {
            kind = "index";
            v.push(("e", self.expr(cx, b)));
            v.push(("i", self.expr(cx, i)));
            if let Some(did) = cx.tr.type_dependent_def_id(e.hir_id) {
               let ga = cx.tr.node_args(e.hir_id);
               if let Some(c) = self.callee(cx, did, ga) {
                  v.push(("c", c));
               }
            }
            if let Some(t) = cx.tr.expr_ty_adjusted_opt(b) {
               v.push(("bt", self.ty(t)));
            }
         },
         K::Break(dest, val) => {
            kind = "break";
            if let Some(l) = dest.label {
               v.push(("label", s(l.ident.name.to_string())));
            }
            if let Some(val) = val {
               v.push(("e", self.expr(cx, val)));
            }
         },
         K::Continue(dest) => {
            kind = "continue";
            if let Some(l) = dest.label {
               v.push(("label", s(l.ident.name.to_string())));
            }
         },
         K::Ret(val) => {
            kind = "ret";
            if let Some(val) = val {
               v.push(("e", self.expr(cx, val)));
            }
         },
         K::Struct(qp, fields, tail) => {
            kind = "struct";
            let r = self.qpath(cx, qp, e.hir_id);
            v.push(("path", obj(r)));
            let mut fs = vec![];
            for f in fields {
               fs.push(obj(vec![("n", s(f.ident.name.to_string())), ("e", self.expr(cx, f.expr))]));
            }
            v.push(("fs", J::Arr(fs)));
            if let hir::StructTailExpr::Base(b) = tail {
               v.push(("base", self.expr(cx, b)));
            }
         },
         K::Repeat(inner, _) => {
            kind = "repeat";
            v.push(("e", self.expr(cx, inner)));
         },
         K::Use(inner, _) => {
            kind = "use";
            v.push(("e", self.expr(cx, inner)));
         },
         K::ConstBlock(_) => kind = "constblock",
         K::Become(_) => kind = "become",
         K::InlineAsm(_) => kind = "asm",
         K::OffsetOf(..) => kind = "offsetof",
         K::Yield(..) => kind = "yield",
         K::UnsafeBinderCast(..) => kind = "unsafe_binder_cast",
         K::Err(_) => kind = "err",
         K::DropTemps(_) => unreachable!(),
      }
      let mut out = vec![("k", s(kind))];
      out.extend(v);
      out.push(("t", self.ty(cx.tr.expr_ty(e))));
      // adjustments that matter: overloaded deref and borrow kind
      let adj = cx.tr.expr_adjustments(e);
      if !adj.is_empty() {
         let mut av = vec![];
         for a in adj {
            use ty::adjustment::Adjust;
            av.push(s(match &a.kind {
               Adjust::NeverToAny => "never".to_string(),
               Adjust::Deref(k) => format!("deref{}", if format!("{:?}", k).contains("Overloaded") { ":overloaded" } else { "" }),
               Adjust::Borrow(b) => format!("borrow:{:?}", b).replace(' ', ""),
               Adjust::Pointer(p) => format!("ptr:{:?}", p),
               _ => "other".to_string(),
            }));
         }
         out.push(("adj", J::Arr(av)));
      }
      out.push(("sp", self.span(e.span)));
      if let Some(sn) = self.snippet(e.span) {
         out.push(("snip", s(sn)));
      }
      obj(out)
   }

   fn pat(&mut self, cx: &mut BodyCx<'tcx>, p: &'tcx hir::Pat<'tcx>) -> J {
      use hir::PatKind as P;
      let mut v: Vec<(&'static str, J)> = vec![];
      let kind: &'static str;
      match p.kind {
         P::Missing => kind = "missing",
         P::Wild => kind = "wild",
         P::Never => kind = "never",
         P::Binding(mode, id, ident, sub) => {
            kind = "bind";
            v.push(("id", J::Num(((id.owner.def_id.local_def_index.as_u32() as i64) << 24) | id.local_id.as_u32() as i64)));
            v.push(("n", s(ident.name.to_string())));
            let m = format!("{:?}", mode);
            if m.contains("Ref(") && !m.contains("ByRef::No") {
               v.push(("byref", J::Bool(true)));
            }
            if m.contains("Mut)") || m.ends_with("Mut") {
               v.push(("mut", J::Bool(true)));
            }
            if let Some(sp) = sub {
               v.push(("sub", self.pat(cx, sp)));
            }
         },
         P::Struct(ref qp, fields, _) => {
            kind = "struct";
            let r = self.qpath(cx, qp, p.hir_id);
            v.push(("path", obj(r)));
            let mut fs = vec![];
            for f in fields {
               fs.push(obj(vec![("n", s(f.ident.name.to_string())), ("p", self.pat(cx, f.pat))]));
            }
            v.push(("fs", J::Arr(fs)));
         },
         P::TupleStruct(ref qp, ps, dd) => {
            kind = "ts";
            let r = self.qpath(cx, qp, p.hir_id);
            v.push(("path", obj(r)));
            v.push(("ps", J::Arr(ps.iter().map(|x| self.pat(cx, x)).collect())));
            if let Some(d) = dd.as_opt_usize() {
               v.push(("dd", J::Num(d as i64)));
            }
         },
         P::Or(ps) => {
            kind = "or";
            v.push(("ps", J::Arr(ps.iter().map(|x| self.pat(cx, x)).collect())));
         },
         P::Tuple(ps, dd) => {
            kind = "tup";
            v.push(("ps", J::Arr(ps.iter().map(|x| self.pat(cx, x)).collect())));
            if let Some(d) = dd.as_opt_usize() {
               v.push(("dd", J::Num(d as i64)));
            }
         },
         P::Box(ip) => {
            kind = "box";
            v.push(("p", self.pat(cx, ip)));
         },
         P::Deref(ip) => {
            kind = "deref";
            v.push(("p", self.pat(cx, ip)));
         },
         P::Ref(ip, _, m) => {
            kind = "ref";
            v.push(("p", self.pat(cx, ip)));
            v.push(("mut", J::Bool(matches!(m, hir::Mutability::Mut))));
         },
         P::Expr(pe) => {
            kind = "expr";
            match pe.kind {
               hir::PatExprKind::Lit { lit, negated } => {
                  let txt = match lit.node {
                     rustc_ast::LitKind::Int(n, _) => format!("{}{}", if negated { "-" } else { "" }, n.get()),
                     rustc_ast::LitKind::Bool(b) => format!("{}", b),
                     rustc_ast::LitKind::Str(sym, _) => format!("{:?}", sym.as_str()),
                     rustc_ast::LitKind::Char(c) => format!("{:?}", c),
                     _ => "<lit>".to_string(),
                  };
                  v.push(("lit", s(txt)));
               },
               hir::PatExprKind::Path(ref qp) => {
                  let r = self.qpath(cx, qp, pe.hir_id);
                  v.push(("path", obj(r)));
               },
            }
         },
         P::Guard(ip, g) => {
            kind = "guard";
            v.push(("p", self.pat(cx, ip)));
            v.push(("g", self.expr(cx, g)));
         },
         P::Range(..) => kind = "range",
         P::Slice(a, m, b) => {
            kind = "slice";
            v.push(("ps", J::Arr(a.iter().chain(m.into_iter()).chain(b.iter()).map(|x| self.pat(cx, x)).collect())));
         },
         P::Err(_) => kind = "err",
      }
      let mut out = vec![("k", s(kind))];
      out.extend(v);
      out.push(("t", self.ty(cx.tr.pat_ty(p))));
      obj(out)
   }
}

struct BodyCx<'tcx> {
   owner: LocalDefId,
   tr: &'tcx TypeckResults<'tcx>,
}

fn main() {
   let mut args: Vec<String> = std::env::args().collect();
   // RUSTC_WORKSPACE_WRAPPER convention: argv[1] is the path of the real rustc
   if args.len() > 1 && (args[1].ends_with("rustc") || args[1].contains("/rustc")) {
      args.remove(1);
   }
   let code = rustc_driver::catch_with_exit_code(move || {
      rustc_driver::run_compiler(&args, &mut Cb);
   });
   std::process::exit(if code == std::process::ExitCode::SUCCESS { 0 } else { 1 });
}
