"""E3 - compile witnesses for C15: every ill-formed program of the witness matrix fails to compile with the expected diagnostic
located at the program, the macros neither panic nor ICE, and the compiling twin (identical but for the offending construct)
compiles. Nothing is executed: the Rust compiler is used as the decision procedure for "is rejected"."""
import json, os, shutil, subprocess, sys, time
from core import Broken

VERIF = os.path.dirname(os.path.dirname(os.path.abspath(__file__)))
WORK = os.environ.get('VERIF_WORK') or os.path.join(VERIF, '.work')
REPO = os.environ.get('ASCENT_REPO', '/repo')


def run_witnesses(ctx, rep, tier, kinds=None):
    wdir = os.path.join(WORK, 'wit_' + tier)
    gen = os.path.join(VERIF, 'witnesses', 'gen_witnesses.py')
    shutil.rmtree(wdir, ignore_errors=True)
    r = subprocess.run([sys.executable, gen, wdir, tier], capture_output=True, text=True)
    if r.returncode != 0:
        raise Broken('witness generator failed: ' + r.stderr[-500:])
    lock = os.path.join(REPO, 'Cargo.lock')
    if os.path.exists(lock):
        shutil.copy(lock, os.path.join(wdir, 'Cargo.lock'))
    wits = json.load(open(os.path.join(wdir, 'witnesses.json')))
    env = dict(os.environ, CARGO_TARGET_DIR=os.path.join(WORK, 'target-wit'), CARGO_NET_OFFLINE='true')
    env.pop('RUSTC_WRAPPER', None)
    env.pop('RUSTFLAGS', None)
    t0 = time.time()
    # a witness must be REJECTED, not make the compiler hang: the whole run has a deadline (normally it takes seconds)
    deadline = 420 if tier == 'quick' else 1500
    hung = False
    import signal
    proc = subprocess.Popen(['cargo', '+stable', 'check', '--offline', '--workspace', '--keep-going', '--message-format=json', '-q'],
                            cwd=wdir, env=env, stdout=subprocess.PIPE, stderr=subprocess.PIPE, text=True, start_new_session=True)
    try:
        out, err = proc.communicate(timeout=deadline)
        r = subprocess.CompletedProcess(proc.args, proc.returncode, out, err)
    except subprocess.TimeoutExpired:
        hung = True
        # only the process group of this cargo run (rustc children included) is killed
        try:
            os.killpg(proc.pid, signal.SIGKILL)
        except ProcessLookupError:
            pass
        out, err = proc.communicate()
        r = subprocess.CompletedProcess(proc.args, 124, out or '', err or '')
    ctx.log('witnesses: cargo check over %d crates in %.1fs%s' % (len(wits) + 1, time.time() - t0, ' (DEADLINE EXCEEDED)' if hung else ''))
    msgs = {}
    finished_ok = set()
    for line in r.stdout.splitlines():
        try:
            j = json.loads(line)
        except Exception:
            continue
        if j.get('reason') == 'compiler-message':
            pkg = j['package_id'].split('#')[0].rstrip('/').split('/')[-1] if '#' in j['package_id'] else j['package_id'].split(' ')[0]
            # package ids look like path+file:///.../w001_x#0.1.0
            name = j.get('target', {}).get('name') or pkg
            msgs.setdefault(name, []).append(j['message'])
        elif j.get('reason') == 'compiler-artifact':
            finished_ok.add(j['target']['name'])
    if 'ascent' not in finished_ok:
        raise Broken('the ascent crate itself did not compile with the stable toolchain:\n' + r.stderr[-1500:])
    # twins
    twin_errs = [m for m in msgs.get('twins', []) if m['level'] == 'error']
    twins_ok = 'twins' in finished_ok and not twin_errs
    bad_twins = set()
    if not twins_ok:
        # locate the failing twin modules by line number
        src = open(os.path.join(wdir, 'twins', 'src', 'lib.rs')).read().splitlines()
        mod_at = {}
        cur = None
        for i, l in enumerate(src, 1):
            if l.startswith('pub mod '):
                cur = l.split()[2]
            mod_at[i] = cur
        for m in twin_errs:
            for sp in m.get('spans', []):
                if sp.get('is_primary'):
                    bad_twins.add(mod_at.get(sp['line_start']))
        if not bad_twins:
            raise Broken('the twins crate failed to compile for an unknown reason: ' + (twin_errs[0]['message'] if twin_errs else r.stderr[-800:]))
    for w in wits:
        name = w['name']
        if kinds and w['kind'] not in kinds:
            continue
        where = 'witness %s/%s/%s' % (w['kind'], w['variant'], w['macro'])
        errs = [m for m in msgs.get(name, []) if m['level'] == 'error']
        compiled = name in finished_ok
        if hung and not compiled and not errs:
            rep.inst('W', '%s: the compiler did not finish within %ds' % (where, deadline))
            rep.programs.add(name)
            rep.viol('W', where, 'compiler-hangs', 'the macro neither rejects nor accepts this program: the expansion does not terminate '
                     '(no result for this witness within the %ds allowed for the whole witness run)' % deadline)
            continue
        texts = [m['message'] for m in errs]
        rendered = ' | '.join(texts)
        panicked = any(('proc macro panicked' in t or 'internal compiler error' in t or 'custom attribute panicked' in t or 'proc-macro derive panicked' in t)
                       for t in texts)
        frag_hit = [m for m in errs if w['frag'] in m['message']]
        located = False
        for m in frag_hit:
            for sp in m.get('spans', []):
                if sp.get('is_primary') and sp.get('file_name', '').endswith('src/lib.rs') and sp['line_start'] >= 3:
                    located = True
        twin_good = name not in bad_twins
        ok = (not compiled) and bool(frag_hit) and located and not panicked and twin_good
        rep.inst('W', '%s: rejected=%s, expected diagnostic `%s` at the program=%s, no panic=%s, twin compiles=%s' % (
            where, not compiled, w['frag'], bool(frag_hit) and located, not panicked, twin_good))
        rep.programs.add(name)
        if compiled:
            rep.viol('W', where, 'accepted', 'an ill-formed program (%s) compiles: the construct is silently evaluated' % w['kind'])
        elif panicked:
            rep.viol('W', where, 'macro-panic', 'the macro panicked instead of reporting an error: ' + rendered[:300])
        elif not frag_hit:
            rep.viol('W', where, 'wrong-diagnostic', 'rejected, but not with the expected diagnostic `%s`; got: %s' % (w['frag'], rendered[:300]))
        elif not located:
            rep.viol('W', where, 'not-located', 'the diagnostic is not reported at the program text')
        if not twin_good:
            rep.viol('W', where, 'twin-rejected', 'the well-formed twin of this witness does not compile: the witness fails for another reason / a legal program is rejected')
    return len(wits)
