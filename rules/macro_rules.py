"""M-rules over the proc-macro crate itself (back-up for the twin comparisons of C07 / C08).
M1  desugar_ascent_program applies: macro expansion, then disjunction < {pattern args, wildcards, negation} < repeated vars.
M2  the per-rule GenSym of macro expansion is threaded by `&mut` through every recursive expansion and into the renaming step;
    it is never cloned (a cloned counter hands the same fresh names to two invocations)."""
from facts import walk, callee
from tree import strip, cname
from lib_rules import chain_root
from core import Broken


def check_M1(ctx, rep):
    cr = ctx.lib('ascent_macro')
    b = cr.bodies.get('ascent_syntax::desugar_ascent_program')
    if b is None:
        raise Broken('ascent_macro::ascent_syntax::desugar_ascent_program not found')
    rep.functions.add(b['path'])
    # order of application = nesting depth of the receiver chain (innermost first)
    order = []

    def chain(n, depth=0):
        n = strip(n)
        if n.get('k') == 'mcall':
            chain(n['r'], depth + 1)
            for a in n['a']:
                a = strip(a)
                if a.get('k') == 'path' and a.get('res') == 'def' and 'rule_desugar' in (a.get('d') or ''):
                    order.append(a['d'].split('::')[-1])
                if a.get('k') == 'closure':
                    for x, _ in walk(a['b']):
                        c = callee(x)
                        if c and 'rule_expand_macro_invocations' in cname(c):
                            order.append('rule_expand_macro_invocations')
    for x, _ in walk(b['tree']):
        if x.get('k') == 'mcall' and x['m'] == 'collect_vec':
            o0 = len(order)
            chain(x)
    # the macro expansion happens in an earlier statement
    names = []
    for x, _ in walk(b['tree']):
        c = callee(x)
        if c and 'rule_expand_macro_invocations' in cname(c):
            names.append('rule_expand_macro_invocations')
    seq = [o for o in order if o.startswith('rule_desugar')]
    rep.inst('M1', 'desugaring passes in application order: %s' % seq)
    want_before = [('rule_desugar_disjunction_nodes', 'rule_desugar_pattern_args'), ('rule_desugar_disjunction_nodes', 'rule_desugar_wildcards'),
                   ('rule_desugar_disjunction_nodes', 'rule_desugar_negation'), ('rule_desugar_pattern_args', 'rule_desugar_repeated_vars'),
                   ('rule_desugar_wildcards', 'rule_desugar_repeated_vars'), ('rule_desugar_negation', 'rule_desugar_repeated_vars')]
    for p in {x for pair in want_before for x in pair}:
        if p not in seq:
            raise Broken('desugaring pass %s not found in desugar_ascent_program' % p)
    if not names:
        raise Broken('macro expansion not found in desugar_ascent_program')
    for a, c in want_before:
        ok = seq.index(a) < seq.index(c)
        rep.inst('M1', '%s before %s: %s' % (a, c, ok))
        if not ok:
            rep.viol('M1', b['path'], '%s>%s' % (a, c), 'desugaring pass `%s` runs after `%s`, which expects its input already without the forms it removes' % (a, c))


def check_M2(ctx, rep):
    cr = ctx.lib('ascent_macro')
    fn = None
    for p, b in cr.bodies.items():
        if p.endswith('rule_expand_macro_invocations::body_item_expand_macros'):
            fn = b
    if fn is None:
        raise Broken('body_item_expand_macros not found')
    rep.functions.add(fn['path'])
    gid = None
    for prm in fn['params']:
        if prm.get('k') == 'bind' and 'GenSym' in (cr.ty(prm) or ''):
            gid = prm['id']
    if gid is None:
        raise Broken('body_item_expand_macros has no GenSym parameter')
    n = 0
    for x, _ in walk(fn['tree']):
        c = callee(x)
        if not c or x.get('k') != 'call':
            continue
        nm = cname(c)
        if nm.endswith('body_item_expand_macros') or nm.endswith('body_items_rename_macro_originated_vars'):
            gargs = [a for a in x['a'] if 'GenSym' in (cr.ty(strip(a)) or '')]
            for a in gargs:
                r = chain_root(a)
                direct = r is not None and r['id'] == gid and not any(y.get('k') in ('mcall', 'call') for y, _ in walk(a))
                n += 1
                rep.inst('M2', '%s passes the rule\'s GenSym on to %s: %s' % (fn['path'].split('::')[-1], nm.split('::')[-1], direct))
                if not direct:
                    rep.viol('M2', fn['path'], 'gensym-not-threaded:' + nm.split('::')[-1],
                             'a recursive macro expansion step receives a different GenSym than the rule\'s own (copy / fresh counter): '
                             'two invocations in one rule can get the same "fresh" names', loc=cr.loc(x))
    if n < 3:
        raise Broken('GenSym hand-over sites found: %d (expected >= 3)' % n)
    # no clone of a GenSym anywhere in the crate
    for p, b in cr.bodies.items():
        if b.get('impl_of') and 'GenSym' in b['impl_of'] and b['name'] == 'clone':
            continue
        for x, _ in walk(b['tree']):
            c = callee(x)
            if c and cname(c).endswith('Clone::clone'):
                st = cr.s(c.get('self')) if c.get('self') is not None else ''
                recv_t = cr.ty(strip(x['r'])) if x.get('k') == 'mcall' else ''
                if 'GenSym' in (st or '') or 'GenSym' in (recv_t or ''):
                    rep.viol('M2', p, 'gensym-clone', 'a GenSym is cloned: counters advanced on the copy are lost', loc=cr.loc(x))
    rep.inst('M2', 'no GenSym clone in ascent_macro')


# syn 2 `Pat` variants that carry sub-patterns (and so may bind variables). A pattern walker that falls into `_ => {}` for one of
# them makes the variables bound inside invisible: the rule compiler then takes a later occurrence for a NEW variable
# (`let (y) = x + 1, bar(y, z)` silently becomes a cross product).
PAT_VARIANTS_WITH_SUBPATTERNS = ('Ident', 'Or', 'Paren', 'Reference', 'Slice', 'Struct', 'Tuple', 'TupleStruct', 'Type')


def check_M3(ctx, rep):
    """exhaustiveness of the pattern walkers of the macro crate: every function that matches on a `syn::Pat` to collect / rename the
    variables it binds has an arm for every variant that can contain a binding."""
    cr = ctx.lib('ascent_macro')
    n = 0
    for path, b in sorted(cr.bodies.items()):
        if not b['params'] or 'pattern' not in b['name']:
            continue
        pty = cr.s(b['params'][0].get('t')) or ''
        if 'syn::Pat' not in pty or 'PatType' in pty:
            continue
        p0 = b['params'][0].get('id')
        for x, _ in walk(b['tree']):
            if x.get('k') != 'match' or x.get('src') not in (None, 'normal'):
                continue
            scr = chain_root(x['e'])
            if scr is None or scr.get('id') != p0:
                continue
            have = set()
            for a in x['arms']:
                for y, _ in walk(a['p']):
                    d = (y.get('path') or {}).get('d') or y.get('d') or ''
                    if '::Pat::' in d:
                        have.add(d.split('::Pat::')[-1].split('::')[0])
            if len(have) < 4:
                continue
            n += 1
            # every arm of a binding-carrying variant descends into the sub-pattern(s): it calls the walker itself again
            for a in x['arms']:
                vs = set()
                for y, _ in walk(a['p']):
                    d = (y.get('path') or {}).get('d') or y.get('d') or ''
                    if '::Pat::' in d:
                        vs.add(d.split('::Pat::')[-1].split('::')[0])
                vs &= set(PAT_VARIANTS_WITH_SUBPATTERNS)
                if not vs:
                    continue
                recurses = False
                for y, _ in walk(a['b']):
                    c = callee(y) if y.get('k') in ('call', 'mcall') else None
                    if c and (c.get('d') or '').split('::')[-1] == b['name']:
                        recurses = True
                    # the walker handed on as a function value: `cases.iter().map(pattern_get_vars)`
                    if y.get('k') == 'path' and y.get('res') == 'def' and (y.get('d') or '').split('::')[-1] == b['name']:
                        recurses = True
                rep.inst('M3', '%s: arm %s descends into its sub-patterns: %s' % (path, sorted(vs), recurses))
                if not recurses:
                    rep.viol('M3', path, 'pat-arm-shallow:' + ','.join(sorted(vs)),
                             'the arm for `Pat::%s` of `%s` does not walk the sub-pattern (e.g. `whole @ Some(y)`): variables bound below are '
                             'invisible to the rule compiler' % ('/'.join(sorted(vs)), b['name']), loc=cr.loc(a['b']))
            missing = [v for v in PAT_VARIANTS_WITH_SUBPATTERNS if v not in have]
            rep.inst('M3', '%s: match on syn::Pat handles %d variants; binding-carrying variants missing: %s' % (path, len(have), missing or 'none'))
            rep.functions.add(path)
            for v in missing:
                rep.viol('M3', path, 'pat-variant-unhandled:' + v,
                         '`%s` has no arm for `Pat::%s`: variables bound inside such a pattern are invisible to the rule compiler - a later clause '
                         'using one of them binds a fresh variable instead of joining on it' % (b['name'], v), loc=cr.loc(x))
    if n == 0:
        raise Broken('no pattern walker (match on syn::Pat) found in ascent_macro')
    return n


def check_M4(ctx, rep):
    """the hygiene visitors over body items (`body_item_get_bound_vars`, `body_item_visit_bound_vars_mut`,
    `body_item_visit_exprs_free_vars_mut`, ..) look into every part of a body clause that can hold a variable: the arm for
    `BodyItemNode::Clause` touches every field of `BodyClauseNode` whose type carries expressions / patterns / conditions
    (derived from the struct definition: today `args` and `cond_clauses`)."""
    cr = ctx.lib('ascent_macro')
    adt = None
    for path, a in cr.adts.items():
        if path.endswith('ascent_syntax::BodyClauseNode'):
            adt = a
    if adt is None:
        raise Broken('ascent_syntax::BodyClauseNode not found')
    carriers = [f['n'] for f in adt['variants'][0]['fields']
                if any(t in (cr.s(f['ty']) or '') for t in ('BodyClauseArg', 'CondClause', 'Expr', 'Pat'))]
    if len(carriers) < 2:
        raise Broken('BodyClauseNode: expected at least the fields args and cond_clauses to carry variables, found %s' % carriers)
    n = 0
    for path, b in sorted(cr.bodies.items()):
        if not b['name'].startswith('body_item_') or not b['params']:
            continue
        pty = cr.s(b['params'][0].get('t')) or ''
        if 'BodyItemNode' not in pty:
            continue
        p0 = b['params'][0].get('id')
        for x, _ in walk(b['tree']):
            if x.get('k') != 'match':
                continue
            scr = chain_root(x['e'])
            if scr is None or scr.get('id') != p0:
                continue
            for a in x['arms']:
                is_clause = any(((y.get('path') or {}).get('d') or y.get('d') or '').endswith('BodyItemNode::Clause') for y, _ in walk(a['p']))
                if not is_clause:
                    continue
                binds = {bb['id'] for bb in pat_bindings_(a['p'])}
                touched = set()
                for y, _ in walk(a['b']):
                    if y.get('k') == 'field' and y['n'] in carriers:
                        r = chain_root(y)
                        if r is not None and r.get('id') in binds:
                            touched.add(y['n'])
                n += 1
                missing = [f for f in carriers if f not in touched]
                rep.inst('M4', '%s: the Clause arm looks into %s of BodyClauseNode (carriers of variables: %s)' % (path, sorted(touched), carriers))
                rep.functions.add(path)
                for f in missing:
                    rep.viol('M4', path, 'clause-part-unvisited:' + f,
                             '`%s` does not look into `%s` of a body clause: variables there are not renamed / not collected - a macro-local variable '
                             'used in a condition attached to a clause keeps its source name while its binding occurrence is renamed' % (b['name'], f), loc=cr.loc(a['b']))
    if n < 3:
        raise Broken('M4: only %d body-item visitors with a Clause arm found' % n)
    # the same for aggregations: between them, the Agg arms of the renamer's visitors reach every field of AggClauseNode that
    # holds variables (result pattern, aggregated variables, relation arguments, aggregator expression); the collector and the
    # renaming visitor of *bound* variables (siblings) look into the same fields
    agg_adt = None
    for path, a in cr.adts.items():
        if path.endswith('ascent_syntax::AggClauseNode'):
            agg_adt = a
    if agg_adt is None:
        raise Broken('ascent_syntax::AggClauseNode not found')
    agg_carriers = []
    for f in agg_adt['variants'][0]['fields']:
        ty = cr.s(f['ty']) or ''
        if 'Punctuated<proc_macro2::Ident' in ty.replace('syn::punctuated::', '').replace('proc_macro2::Ident', 'proc_macro2::Ident') or \
                any(t in ty for t in ('syn::Pat', 'syn::Expr', 'AggregatorNode')) or ('Punctuated<' in ty and 'Ident' in ty):
            agg_carriers.append(f['n'])
    if len(agg_carriers) < 4:
        raise Broken('AggClauseNode: expected pat, aggregator, bound_args, rel_args to carry variables, found %s' % agg_carriers)
    per_fn = {}
    for path, b in sorted(cr.bodies.items()):
        if b['name'] not in ('body_item_get_bound_vars', 'body_item_visit_bound_vars_mut', 'body_item_visit_exprs_free_vars_mut') or not b['params']:
            continue
        p0 = b['params'][0].get('id')
        for x, _ in walk(b['tree']):
            if x.get('k') != 'match':
                continue
            scr = chain_root(x['e'])
            if scr is None or scr.get('id') != p0:
                continue
            for a in x['arms']:
                if not any(((y.get('path') or {}).get('d') or y.get('d') or '').endswith('BodyItemNode::Agg') for y, _ in walk(a['p'])):
                    continue
                binds = {bb['id'] for bb in pat_bindings_(a['p'])}
                touched = set()
                for y, _ in walk(a['b']):
                    if y.get('k') == 'field' and y['n'] in agg_carriers:
                        r = chain_root(y)
                        if r is not None and r.get('id') in binds:
                            touched.add(y['n'])
                per_fn[b['name']] = (path, touched, a['b'])
                rep.inst('M4', '%s: the Agg arm looks into %s of AggClauseNode (carriers of variables: %s)' % (path, sorted(touched), agg_carriers))
                rep.functions.add(path)
    if len(per_fn) < 3:
        raise Broken('M4: Agg arms of the three hygiene visitors not found (%s)' % sorted(per_fn))
    union = set().union(*[t for _, t, _ in per_fn.values()])
    for f in agg_carriers:
        if f not in union:
            rep.viol('M4', 'ascent_syntax::body_item_* (Agg arms)', 'agg-part-unvisited:' + f,
                     'no hygiene visitor looks into `%s` of an aggregation: variables there keep their source names when a macro body '
                     'is expanded - they meet call-site variables of the same name' % f, loc=cr.loc(per_fn['body_item_visit_bound_vars_mut'][2]))
    g, v = per_fn['body_item_get_bound_vars'][1], per_fn['body_item_visit_bound_vars_mut'][1]
    if g != v:
        rep.viol('M4', 'ascent_syntax::body_item_visit_bound_vars_mut', 'agg-siblings-disagree',
                 'the collector of bound variables looks into %s of an aggregation, the renaming visitor into %s: a variable that is '
                 'collected but not renamed (or the reverse) is renamed at its uses only' % (sorted(g), sorted(v)))
    return n


def pat_bindings_(p):
    from tree import pat_bindings
    return pat_bindings(p)


def check_M5(ctx, rep):
    """scoping of `let` statements in block expressions: in `block_visit_free_vars` and its hand-written `_mut` twin the variables a
    statement binds join the bound set only after the statement itself has been visited (`let w = w * 10;` reads the outer `w`).
    Read off the statement order of the loop body: the call that visits the statement comes before the call that extends the set."""
    cr = ctx.lib('ascent_macro')
    n = 0
    for name in ('block_visit_free_vars', 'block_visit_free_vars_mut'):
        b = None
        for path, bb in cr.bodies.items():
            if bb['name'] == name and 'syn_utils' in path:
                b = bb
        if b is None:
            raise Broken('M5: syn_utils::%s not found' % name)
        rep.functions.add(b['path'])
        found = False
        for x, _ in walk(b['tree']):
            if x.get('k') != 'block' or len(x.get('ss', [])) < 2:
                continue
            visit_i = ext_i = None
            for i, st in enumerate(x['ss']):
                for y, _ in walk(st):
                    c = callee(y) if y.get('k') in ('call', 'mcall') else None
                    if not c:
                        continue
                    nm = cname(c)
                    if nm.endswith(('stmt_visit_free_vars', 'stmt_visit_free_vars_mut')) and visit_i is None:
                        visit_i = i
                    if y.get('k') == 'mcall' and y['m'] in ('extend', 'insert') and ext_i is None and st.get('k') in ('semi', 'expr'):
                        # the statement itself is the extension (not an extend nested in the visiting closure)
                        if strip(st['e']) is y:
                            ext_i = i
            if visit_i is None or ext_i is None:
                continue
            found = True
            n += 1
            ok = visit_i < ext_i
            rep.inst('M5', '%s: the statement is visited %s its binders join the bound set' % (name, 'before' if ok else 'AFTER'))
            if not ok:
                rep.viol('M5', b['path'], 'let-binders-in-scope-of-own-initialiser',
                         '`%s` adds the variables a `let` statement binds to the bound set before visiting the statement: the initialiser of '
                         '`let w = w * 10;` is taken to refer to the new `w` - the hygiene renamer (or the free-variable analysis) skips '
                         'the outer variable there' % name, loc=cr.loc(x['ss'][ext_i]))
        if not found:
            raise Broken('M5: loop body of %s not recognised (visit call + extension of the bound set)' % name)
    return n
