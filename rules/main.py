#!/usr/bin/env python3
"""check <PROPERTY-ID> [--tier quick|thorough] : decide one property on /repo's current working tree (static analysis only)."""
import os, sys, time, traceback
sys.path.insert(0, os.path.dirname(os.path.abspath(__file__)))
import core, extract
import props


def main():
    args = sys.argv[1:]
    if not args:
        print('usage: check <ID> [--tier quick|thorough]'); return 2
    pid = args[0]
    tier = os.environ.get('VERIF_TIER', 'quick')
    if '--tier' in args:
        tier = args[args.index('--tier') + 1]
    if pid not in props.PROPS:
        print('unknown or unclaimed property', pid); return 2
    t0 = time.time()
    log = lambda s: print('[check] ' + s, file=sys.stderr)
    spec = props.PROPS[pid]
    try:
        if spec.get('facts', True) is False:
            fdir, meta = None, {'repo_ok': True}
        else:
            fdir, meta = extract.ensure_facts(log, need_corpus=spec.get('corpus', True))
        if not meta.get('repo_ok'):
            for e in meta.get('errors', []):
                sys.stderr.write(e['stderr'][-3000:] + '\n')
            raise core.Broken('/repo does not type-check under the fact extractor')
        if spec.get('corpus', True) and meta.get('corpus') and not meta.get('corpus_ok'):
            for e in meta.get('errors', []):
                sys.stderr.write(e['stderr'][-3000:] + '\n')
            failed = meta.get('corpus_failed')
            if not failed or pid != 'C15' and len(failed) > 4:
                raise core.Broken('the corpus does not compile against /repo (see stderr)')
            # some families of well-formed corpus programs are rejected by the current tree: C15 reports that; the other checks give
            # their verdict on the families that still compile (their instance floors decide whether that is enough)
            log('corpus crates that do not compile against /repo: %s' % ', '.join(failed))
        ctx = core.Ctx(fdir, meta, tier, log)
        rep = core.Report(pid)
        extra = spec['run'](ctx, rep) or {}
        return core.finish(rep, tier, t0, spec['level'], spec['explanation'], spec['assumptions'], spec['rule_text'],
                           extra.get('samples'), extra.get('cov'))
    except core.Broken as e:
        print('CHECK-BROKEN property=%s: %s' % (pid, e))
        return 2
    except Exception:
        traceback.print_exc()
        print('CHECK-BROKEN property=%s: internal error of the checker' % pid)
        return 2


if __name__ == '__main__':
    sys.exit(main())
