"""Twin comparison: two corpus programs that the documentation says mean the same must expand to the same thing.

C-level (code): the normalised generated code of both programs is identical - same relations and index fields, same strata,
  same rule closures modulo alpha-renaming of local bindings, program name and source positions. Used where the expansion is
  supposed to be the same program text for the later compiler stages: packaging variants, attributes on/off, include_source vs
  pasted, `!r` vs `agg () = not()`, `_` / `?pat` / repeated variable vs their hand expansion, re-declaration vs last declaration.
L-level (logical): the multiset of reconstructed logical rule variants (tv_rules.Recon), split per head clause and
  alpha-renamed, is identical. Used where the expansion legitimately changes how rules are partitioned / ordered: multi-head vs
  one rule per head, disjunction vs product of rules, in-program macros vs hand expansion, permuted rules / declarations.
Both sides are outputs of the *current* macro; nothing is compared with a stored golden file."""
import re
from facts import walk, callee, children
from tree import strip, cname, pat_bindings
from genmodel import self_field, local_of, Unrecognised
from gen_rules import operand
import tv_rules
from core import Broken


class Env:
    def __init__(self, prog_path, sc=None, pg=None):
        self.names = {}
        self.n = 0
        self.prog = prog_path
        self.sc = sc
        self.pg = pg

    def name(self, lid, orig):
        if lid in self.names:
            return self.names[lid]
        if self.sc is not None and lid in self.sc.versions:
            f, v = self.sc.versions[lid]
            nm = '$%s.%s' % (f, v)
        elif self.sc is not None and self.sc.changed and lid == self.sc.changed[0]:
            nm = '$changed'
        elif self.pg is not None and lid in getattr(self.pg.p, 'self_ids', ()):
            nm = '$self'
        else:
            nm = None
        if nm is None:
            nm = 'v%d' % self.n
            self.n += 1
        self.names[lid] = nm
        return nm

    def free(self, lid, orig):
        """a local that is not bound inside the canonised region: version locals get semantic names, other captures keep
        their source name (captured user variables)"""
        if lid in self.names:
            return self.names[lid]
        if self.sc is not None and lid in self.sc.versions:
            f, v = self.sc.versions[lid]
            nm = '$%s.%s' % (f, v)
        elif self.sc is not None and self.sc.changed and lid == self.sc.changed[0]:
            nm = '$changed'
        elif self.pg is not None and lid in getattr(self.pg.p, 'self_ids', ()):
            nm = '$self'
        else:
            nm = '^' + orig
        self.names[lid] = nm
        return nm


def _path(s, env):
    """definition paths with the program's own module / struct path abstracted"""
    if s is None:
        return None
    root = env.prog.split('::')[0]
    s = re.sub(r'\b%s::' % re.escape(root), '$M::', s)
    s = re.sub(r'\bAscentProgram\b', 'P', s)
    return s


def canon_pat(p, env):
    k = p['k']
    if k == 'bind':
        nm = env.name(p['id'], p['n'])
        sub = canon_pat(p['sub'], env) if 'sub' in p else None
        return ('bind', nm, bool(p.get('byref')), bool(p.get('mut')), sub)
    if k in ('tup', 'or', 'slice'):
        return (k, tuple(canon_pat(x, env) for x in p['ps']))
    if k == 'ts':
        return ('ts', _path(p['path'].get('d'), env), tuple(canon_pat(x, env) for x in p['ps']))
    if k == 'struct':
        return ('struct', _path(p['path'].get('d'), env), tuple((f['n'], canon_pat(f['p'], env)) for f in p['fs']))
    if k in ('ref', 'box', 'deref'):
        return (k, canon_pat(p['p'], env))
    if k == 'expr':
        return ('lit', p.get('lit') or _path((p.get('path') or {}).get('d'), env))
    return (k,)


def canon(n, env):
    """canonical nested-tuple form of an expression / statement tree"""
    k = n.get('k')
    if getattr(env, 'shallow', False) and k not in ('path',):
        # generic vs monomorphic twins: user expressions are compared by their source text (resolved callees differ by type)
        t = strip(n)
        if 'snip' in t:
            return ('src', re.sub(r'\s+', '', t['snip']))
        c = callee(t)
        if c and cname(c).endswith('Convert::convert') and t.get('a'):
            return ('convert', canon(t['a'][0], env))
    if k == 'block':
        out = []
        for s in n['ss']:
            if s['k'] == 'item':
                continue
            out.append(canon(s, env))
        tail = canon(n['e'], env) if 'e' in n else None
        if not out and tail is not None and not n.get('unsafe'):
            return tail
        return ('block', tuple(out), tail)
    if k == 'let' and 'ss' not in n and ('sp' in n and 't' not in n or n.get('t') is None):
        init = canon(n['i'], env) if 'i' in n else None
        pat = canon_pat(n['p'], env)
        els = canon(n['els'], env) if 'els' in n else None
        return ('let', pat, init, els)
    if k == 'let':
        init = canon(n['i'], env)
        pat = canon_pat(n['p'], env)
        return ('letx', pat, init)
    if k in ('expr', 'semi'):
        return canon(n['e'], env)
    if k == 'path':
        if n.get('res') == 'local':
            return ('l', env.free(n['id'], n['n']))
        return ('p', _path(n.get('d'), env))
    if k == 'lit':
        v = n['v']
        return ('lit', v)
    if k == 'call':
        c = callee(n)
        name = _path((c.get('pi') or c.get('i') or c.get('d')) if c else None, env)
        f = None if c else canon(n['f'], env)
        return ('call', name, f, tuple(canon(a, env) for a in n['a']))
    if k == 'mcall':
        c = n.get('c')
        name = _path((c.get('pi') or c.get('i') or c.get('d')) if c else n['m'], env)
        return ('mcall', name, canon(n['r'], env), tuple(canon(a, env) for a in n['a']))
    if k == 'closure':
        ps = tuple(canon_pat(p, env) for p in n['ps'])
        return ('closure', ps, canon(n['b'], env))
    if k == 'match':
        arms = []
        e = canon(n['e'], env)
        for a in n['arms']:
            p = canon_pat(a['p'], env)
            g = canon(a['g'], env) if 'g' in a else None
            arms.append((p, g, canon(a['b'], env)))
        return ('match', n.get('src'), e, tuple(arms))
    if k == 'if':
        return ('if', canon(n['c'], env), canon(n['th'], env), canon(n['el'], env) if 'el' in n else None)
    if k == 'field':
        return ('field', n['n'], canon(n['e'], env))
    if k in ('binary', 'assignop'):
        return (k, n['op'], canon(n['l'], env), canon(n['r'], env))
    if k == 'unary':
        return ('unary', n['op'], canon(n['e'], env))
    if k == 'addr':
        return ('addr', bool(n.get('mut')), canon(n['e'], env))
    if k == 'struct':
        return ('struct', _path(n['path'].get('d'), env), tuple((f['n'], canon(f['e'], env)) for f in n['fs']))
    if k == 'loop':
        return ('loop', n.get('src'), canon(n['b'], env))
    return (k,) + tuple(canon(c, env) for c in children(n))


def norm_type(t, prog):
    root = prog.split('::')[0]
    t = re.sub(r'\b%s::' % re.escape(root), '$M::', t)
    t = re.sub(r'\bAscentProgram\b', 'P', t)
    return t


def code_model(pg):
    """C-level normal form of a whole program"""
    p = pg.p
    rels = {}
    for r, rel in p.relations.items():
        rels[r] = (norm_type(rel['row_ty'], p.path), norm_type(p.fields[rel['common']], p.path),
                   tuple(sorted((f, tuple(pg.cols[f]['key'] or ()), str(pg.cols[f]['val']), norm_type(i['ty'], p.path)) for f, i in rel['indices'].items())))
    sccs = []
    for sc in p.sccs:
        rules = []
        for r in sc.rules:
            env = Env(p.path, sc, pg)
            rules.append((r['label'], r['spawned'], canon(r['closure'], env)))
        merges = []
        for m in sc.merges:
            merges.append(tuple(tuple(operand(pg, sc, a)) for a in m['a']))
        sccs.append({'looping': sc.looping, 'dynamic': tuple(sorted(sc.dynamic)), 'body_only': tuple(sorted(sc.body_only)),
                     'pre_freeze': tuple(sorted(sc.pre_freeze)), 'rules': rules, 'merges': tuple(merges),
                     'order': tuple(k for k, _ in sc.order if k != 'return'), 'stores': tuple(sorted(f for f, _, _ in sc.stores))})
    # relation initialisers (`relation r(..) = expr`): assignments to relation fields in Default::default / the ascent_run! block
    inits = []
    holder = p.run_main if p.is_run_macro else (strip(p.entry['default']['tree']) if p.entry.get('default') else None)
    if holder is not None and holder.get('k') == 'block':
        for s_ in holder['ss']:
            if s_['k'] in ('expr', 'semi'):
                e = strip(s_['e'])
                if e.get('k') == 'assign':
                    l = strip(e['l'])
                    if l.get('k') == 'field' and l['n'] in p.relations:
                        inits.append((l['n'], canon(e['r'], Env(p.path, None, pg))))
    return {'relations': rels, 'sccs': sccs, 'inits': tuple(sorted(inits, key=repr))}


def diff_code(a, b):
    """first difference between two code models, as text; None if equal"""
    if a['relations'] != b['relations']:
        for r in sorted(set(a['relations']) | set(b['relations'])):
            if a['relations'].get(r) != b['relations'].get(r):
                return 'relation `%s`: fields / index layout differ: %s vs %s' % (r, a['relations'].get(r), b['relations'].get(r))
    if a.get('inits') != b.get('inits'):
        return 'relation initialisers differ: %s vs %s' % (short(a.get('inits')), short(b.get('inits')))
    if len(a['sccs']) != len(b['sccs']):
        return 'number of strata differs: %d vs %d' % (len(a['sccs']), len(b['sccs']))
    for i, (x, y) in enumerate(zip(a['sccs'], b['sccs'])):
        for key in ('looping', 'dynamic', 'body_only', 'pre_freeze', 'merges', 'order', 'stores'):
            if x[key] != y[key]:
                return 'stratum %d: %s differs: %s vs %s' % (i, key, x[key], y[key])
        if len(x['rules']) != len(y['rules']):
            return 'stratum %d: %d vs %d rule variants' % (i, len(x['rules']), len(y['rules']))
        for (la, sa, ca), (lb, sb, cb) in zip(x['rules'], y['rules']):
            if ca != cb:
                return 'stratum %d rule `%s` / `%s`: generated code differs at %s' % (i, la, lb, first_diff(ca, cb))
            if sa != sb:
                return 'stratum %d rule `%s`: one is spawned as a task, the other is not' % (i, la)
    return None


def first_diff(a, b, path=''):
    if type(a) != type(b):
        return '%s: %s vs %s' % (path, short(a), short(b))
    if isinstance(a, tuple):
        if len(a) != len(b):
            return '%s: arity %d vs %d (%s | %s)' % (path, len(a), len(b), short(a), short(b))
        for i, (x, y) in enumerate(zip(a, b)):
            if x != y:
                return first_diff(x, y, path + '/' + (a[0] if i > 0 and isinstance(a[0], str) else str(i)))
        return None
    return '%s: %s vs %s' % (path, short(a), short(b))


def short(x):
    s = repr(x)
    return s if len(s) < 160 else s[:157] + '...'


# ------------------------------------------------------------------------------------------------------------------ L-level

def logical_rules(pg, shallow=False):
    """multiset (sorted list) of canonical logical rule variants, one per (plan, head clause)"""
    out = []
    cr = pg.cr
    for sc in pg.p.sccs:
        for rule in sc.rules:
            try:
                plans = tv_rules.Recon(pg, sc, rule).run()
            except Unrecognised as e:
                raise Broken('twin program rule not reconstructed: %s' % e)
            for pl in plans:
                for h in pl.heads:
                    env = Env(pg.p.path, sc, pg)
                    if shallow:
                        env.shallow = True
                    items = []
                    for it in pl.items:
                        t = it['t']
                        if t == 'guard':
                            continue
                        if t == 'clause':
                            items.append(canon_clause(it, env, cr))
                        elif t == 'if':
                            items.append(('if', canon(it['e'], env)))
                        elif t in ('let', 'iflet', 'for'):
                            e = canon(it['e'], env)
                            items.append((t, e, canon_pat(it['pat'], env)))
                        elif t == 'agg':
                            cl = canon_clause(it['clause'], env, cr)
                            bound = tuple(env.name(bid, n) for n, bid in it['bound'])
                            fn = canon(it['aggfn'], env) if it.get('aggfn') is not None else None
                            # the aggregator call's argument is the generated `__agg_args` local: drop it from the comparison
                            pat = canon_pat(it['pat'], env) if it.get('pat') is not None else None
                            items.append(('agg', cl, bound, _strip_agg_arg(fn), pat))
                    head = (h['rel'], tuple(canon(a, env) for a in h['args']))
                    out.append((head, tuple(items)))
    # delta/total versions and the partition into strata legitimately differ between the two sides (a multi-head rule evaluates all its
    # heads inside the recursive stratum of one of them): compare the SET of logical rules, versions abstracted
    return sorted(set(out), key=repr)


def _strip_agg_arg(fn):
    if fn and fn[0] == 'call':
        return ('call', fn[1], fn[2], len(fn[3]))
    return fn


def canon_clause(it, env, cr):
    cols = []
    for col in sorted(it['cols']):
        t = it['cols'][col]
        if t[0] == 'bind':
            cols.append((col, 'bind', env.name(t[1], t[2])))
        elif t[1] == 'local':
            cols.append((col, 'key', ('l', env.free(t[2], t[3]))))
        else:
            cols.append((col, 'key', canon(tv_rules.unclone(t[4]), env)))
    return ('clause', it['rel'], tuple(cols))


def diff_logical(a, b):
    if a == b:
        return None
    sa, sb = list(a), list(b)
    only_a = [x for x in sa if x not in sb]
    only_b = [x for x in sb if x not in sa]
    if len(sa) != len(sb):
        msg = '%d vs %d logical rule variants; ' % (len(sa), len(sb))
    else:
        msg = ''
    if only_a and only_b:
        # show the closest pair
        x = only_a[0]
        best = min(only_b, key=lambda y: 0 if y[0] == x[0] else 1)
        return msg + 'variant for head `%s` differs: %s' % (x[0][0], first_diff(x, best))
    if only_a:
        return msg + 'only the first program derives `%s` through %s' % (only_a[0][0][0], short(only_a[0][1]))
    return msg + 'only the second program derives `%s` through %s' % (only_b[0][0][0], short(only_b[0][1]))
