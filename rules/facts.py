"""Loading and navigating the fact files written by the ascent-facts driver."""
import json, os, sys

class Crate:
    def __init__(self, path):
        with open(path) as f:
            d = json.load(f)
        self.d = d
        self.name = d['crate']
        self.strs = d['strs']
        self.files = d['files']
        self.bodies = {b['path']: b for b in d['bodies']}
        self.adts = {a['path']: a for a in d['adts']}
        self.impls = d['impls']
        self.traits = {t['path']: t for t in d['traits']}
        self.statics = d['statics']
        self.all_statics = d['all_statics']
        self.macros = d['macros']
    def s(self, i):
        return self.strs[i] if isinstance(i, int) else i
    def ty(self, node):
        t = node.get('t')
        return self.strs[t] if isinstance(t, int) else None
    def loc(self, node):
        sp = node.get('sp')
        if not sp: return '?'
        return '%s:%d' % (self.files[sp[0]], sp[1])
    def from_exp(self, node):
        sp = node.get('sp'); return bool(sp and sp[5])
    def exp_macro(self, node):
        sp = node.get('sp')
        if sp and len(sp) > 6: return self.strs[sp[6]]
        return None

CHILD_KEYS = ('f','r','e','l','i','c','th','el','b','g','base')
LIST_KEYS = ('a','es')

def children(n):
    """Direct sub-expressions / statements of a node (exprs, blocks, stmts, arms), in evaluation order."""
    k = n.get('k')
    out = []
    if k == 'block':
        for s in n['ss']:
            out.append(s)
        if 'e' in n: out.append(n['e'])
        return out
    if k in ('let',) and 'p' in n and 'ss' not in n:
        # let statement or let expression
        if 'i' in n: out.append(n['i'])
        if 'els' in n: out.append(n['els'])
        return out
    if k in ('expr','semi'):
        return [n['e']]
    if k == 'item':
        return []
    if k == 'call':
        return [n['f']] + n['a']
    if k == 'mcall':
        return [n['r']] + n['a']
    if k == 'match':
        out = [n['e']]
        for a in n['arms']:
            if 'g' in a: out.append(a['g'])
            out.append(a['b'])
        return out
    if k == 'struct':
        out = [f['e'] for f in n['fs']]
        if 'base' in n: out.append(n['base'])
        return out
    if k == 'if':
        out = [n['c'], n['th']]
        if 'el' in n: out.append(n['el'])
        return out
    if k in ('binary','assign','assignop'):
        return [n['l'], n['r']]
    if k == 'index':
        return [n['e'], n['i']]
    if k in ('tup','array'):
        return list(n['es'])
    if k in ('closure','loop'):
        return [n['b']]
    for key in ('e',):
        if key in n and isinstance(n[key], dict): out.append(n[key])
    return out

def walk(n, parents=()):
    """Pre-order walk yielding (node, parents tuple)."""
    yield n, parents
    p2 = parents + (n,)
    for c in children(n):
        yield from walk(c, p2)

def callee(n):
    """Callee record of a call / mcall / operator node, or None."""
    k = n.get('k')
    if k == 'mcall': return n.get('c')
    if k == 'call':
        f = n['f']
        if f.get('k') == 'path' and 'c' in f: return f['c']
        return n.get('oc')
    if k in ('index','binary','unary','assignop'): return n.get('c')
    return None

def callee_name(n, cr=None):
    c = callee(n)
    if not c: return None
    return c.get('i') or c.get('d')

def pp(cr, n, ind=0, out=None, maxdepth=99):
    """Readable rendering of a tree (for debugging and for replay files)."""
    top = out is None
    if out is None: out = []
    pad = '  ' * ind
    k = n.get('k')
    def line(s): out.append(pad + s)
    if ind > maxdepth:
        line('...'); return out
    if k == 'block':
        line('{' + (' unsafe' if n.get('unsafe') else ''))
        for s in n['ss']: pp(cr, s, ind+1, out, maxdepth)
        if 'e' in n:
            line('  =>'); pp(cr, n['e'], ind+1, out, maxdepth)
        line('}')
    elif k == 'let' and ('ss' not in n) and 'sp' in n and 'src' not in n and n.get('t') is None:
        line('let %s =' % pat_str(cr, n['p']))
        if 'i' in n: pp(cr, n['i'], ind+1, out, maxdepth)
        if 'els' in n:
            line('else'); pp(cr, n['els'], ind+1, out, maxdepth)
    elif k == 'let':
        line('let %s =' % pat_str(cr, n['p']))
        if 'i' in n: pp(cr, n['i'], ind+1, out, maxdepth)
        if 'els' in n:
            line('else'); pp(cr, n['els'], ind+1, out, maxdepth)
    elif k in ('expr','semi'):
        pp(cr, n['e'], ind, out, maxdepth)
    elif k == 'item':
        line('<item>')
    elif k == 'call':
        c = callee(n)
        line('call %s' % ((c.get('i') or c.get('d')) if c else '?'))
        if not c: pp(cr, n['f'], ind+1, out, maxdepth)
        for a in n['a']: pp(cr, a, ind+1, out, maxdepth)
    elif k == 'mcall':
        c = n.get('c')
        line('mcall .%s -> %s' % (n['m'], (c.get('i') or c.get('d')) if c else '?'))
        pp(cr, n['r'], ind+1, out, maxdepth)
        for a in n['a']: pp(cr, a, ind+1, out, maxdepth)
    elif k == 'path':
        if n.get('res') == 'local': line('local %s#%d' % (n['n'], n['id'] & 0xffffff))
        else: line('path %s %s' % (n.get('dk',''), n.get('d', n.get('res'))))
    elif k == 'field':
        line('field .%s' % n['n']); pp(cr, n['e'], ind+1, out, maxdepth)
    elif k == 'lit':
        line('lit %s' % n['v'])
    elif k == 'closure':
        line('closure |%s|' % ', '.join(pat_str(cr, p) for p in n['ps'])); pp(cr, n['b'], ind+1, out, maxdepth)
    elif k == 'if':
        line('if'); pp(cr, n['c'], ind+1, out, maxdepth); line('then'); pp(cr, n['th'], ind+1, out, maxdepth)
        if 'el' in n: line('else'); pp(cr, n['el'], ind+1, out, maxdepth)
    elif k == 'match':
        line('match[%s]' % n['src']); pp(cr, n['e'], ind+1, out, maxdepth)
        for a in n['arms']:
            line('  arm %s' % pat_str(cr, a['p']))
            if 'g' in a: line('  guard'); pp(cr, a['g'], ind+2, out, maxdepth)
            pp(cr, a['b'], ind+2, out, maxdepth)
    elif k == 'loop':
        line('loop[%s]' % n['src']); pp(cr, n['b'], ind+1, out, maxdepth)
    elif k == 'struct':
        line('struct %s' % n['path'].get('d', n['path'].get('res')))
        for f in n['fs']:
            line('  .%s:' % f['n']); pp(cr, f['e'], ind+2, out, maxdepth)
        if 'base' in n: line('  ..base'); pp(cr, n['base'], ind+2, out, maxdepth)
    else:
        extra = ''
        if 'op' in n: extra += ' ' + n['op']
        if 'mut' in n and n['mut']: extra += ' mut'
        c = n.get('c')
        if c: extra += ' -> %s' % (c.get('i') or c.get('d'))
        line('%s%s' % (k, extra))
        for ch in children(n): pp(cr, ch, ind+1, out, maxdepth)
    return out

def pat_str(cr, p):
    k = p['k']
    if k == 'bind':
        s = ('ref ' if p.get('byref') else '') + ('mut ' if p.get('mut') else '') + p['n'] + '#%d' % (p['id'] & 0xffffff)
        if 'sub' in p: s += ' @ ' + pat_str(cr, p['sub'])
        return s
    if k == 'wild': return '_'
    if k == 'tup': return '(' + ', '.join(pat_str(cr, x) for x in p['ps']) + ')'
    if k == 'ts': return p['path'].get('d', '?') + '(' + ', '.join(pat_str(cr, x) for x in p['ps']) + ')'
    if k == 'struct': return p['path'].get('d', '?') + '{' + ', '.join(f['n'] + ': ' + pat_str(cr, f['p']) for f in p['fs']) + '}'
    if k == 'ref': return '&' + ('mut ' if p.get('mut') else '') + pat_str(cr, p['p'])
    if k == 'expr': return p.get('lit') or p.get('path', {}).get('d', '?')
    if k == 'or': return ' | '.join(pat_str(cr, x) for x in p['ps'])
    return '<%s>' % k

if __name__ == '__main__':
    cr = Crate(sys.argv[1])
    if len(sys.argv) == 2:
        for p in cr.bodies: print(p)
    else:
        for p, b in cr.bodies.items():
            if sys.argv[2] in p:
                print('==', p, b['kind'], 'impl_of', b['impl_of'], 'trait_of', b['trait_of'])
                print('\n'.join(pp(cr, b['tree'])))
