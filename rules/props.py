"""Property -> rules table."""
import lattice_rules, agg_rules


def run_C16(ctx, rep):
    lattice_rules.check_L10(ctx, rep)


def run_C17(ctx, rep):
    agg_rules.check_L9(ctx, rep, ['aggregators'])
    agg_rules.check_L11(ctx, rep)
    rep.floor('L9', 1, 'panicking index operations in ascent::aggregators')
    rep.floor('L11.empty', 7, 'aggregators')


PROPS = {
    'C17': {
        'run': run_C17, 'corpus': False, 'level': 'other',
        'explanation': 'L9: every panicking indexing operation in ascent::aggregators has an index bounded by the indexed vector '
                       '(modulo its len, clamped under a non-empty guard, or dominated by i < len) - totality on the index; '
                       'L11: shape of each library aggregator (fold polarity of min/max, Option vs once for the empty-input behaviour, '
                       'size_hint shortcut of count only when lower == upper and no workspace iterator lies about size_hint, '
                       'guarded division in mean, `not` yields iff next() is None - by abstract evaluation of its two cases). '
                       'Decides totality and shape, NOT arithmetic (overflow, rounding, percentile rank).',
        'assumptions': ['std iterator adaptors (min, max, sum, count, size_hint of std iterators) are correct',
                        'arithmetic of sum/mean and the rank definition of percentile are not decided'],
        'rule_text': 'one instance = one indexing operation (L9) or one shape obligation of one aggregator (L11)',
    },
    'C16': {
        'run': run_C16, 'corpus': False, 'level': 'other',
        'explanation': 'L10: path-enumerating abstract interpretation (typed HIR, no execution) of every impl of Lattice / '
                       'BoundedLattice in ascent_base: polarity of delegated operations (inverted exactly for Dual / Reverse), '
                       'direction of the comparison that replaces self, unconditional evaluation and result flow of delegated '
                       '*_mut calls, assignment => true / no-mutation => not true. Decides the wiring and change-flag clauses '
                       'of C16, NOT the algebraic laws on values.',
        'assumptions': ['PartialOrd/Ord of primitive types and std containers are correct',
                        'value-level laws (commutativity, associativity, absorption, Set/BoundedSet/ConstPropagation tables) are not decided'],
        'rule_text': 'one instance = (impl method, assumed ordering outcome, path) for Q/R/S and (call site) for P; '
                     'distinct = distinct (rule, instance descriptor) pairs',
    },
}
