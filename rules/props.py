"""Property -> rules table."""
import lattice_rules, agg_rules, lib_rules, byods_rules, byods_rules2, gen_driver, witness_rules, macro_rules, uf_rules


def _lib_protocol(ctx, rep):
    """the index building blocks every generated program evaluates through: merges keep both sides whichever is larger (L4), freezing
    converts without rebuilding (L6), the total+delta view reads both parts (L7), emptiness tests are exact (L13). A change that
    breaks one of them breaks every behavioural property of the programs built on them."""
    lib_rules.check_L4(ctx, rep)
    lib_rules.check_L6(ctx, rep)
    lib_rules.check_L7(ctx, rep)
    lib_rules.check_L13(ctx, rep)


def run_C16(ctx, rep):
    lattice_rules.check_L10(ctx, rep)


def run_C17(ctx, rep):
    agg_rules.check_L9(ctx, rep, ['aggregators'], partial=True)
    agg_rules.check_L11(ctx, rep)
    rep.floor('L11.percentile', 2, 'ordering step and rank selection of percentile')
    rep.floor('L11.empty', 7, 'aggregators')


def run_C18(ctx, rep):
    TR = 'trrel_union_find::TrRelUnionFind::<T>::'
    EQ = 'union_find::EqRel::<T>::'
    uf_rules.check_U1(ctx, rep, TR, 'elem_ids', ['get_dominant_id*'])
    uf_rules.check_U1(ctx, rep, EQ, 'elem_ids', ['get_dominant_id*'])
    uf_rules.check_U1(ctx, rep, 'uf::UnionFind::<T>::', 'items', ['find'], find_impl='uf::elems::Elems::<T>::')
    uf_rules.check_U2(ctx, rep, TR, 'set_connections', 'reverse_set_connections',
                      [('set_of_by_set_id', 'rev_set_of_by_set_id'), ('set_of', 'rev_set_of'), ('get_set_connections', 'get_reverse_set_connections')])
    uf_rules.check_U3(ctx, rep, [TR, EQ])
    uf_rules.check_U6(ctx, rep, TR, 'set_connections', 'reverse_set_connections')
    uf_rules.check_U7(ctx, rep, 'trrel_union_find')
    uf_rules.check_U4(ctx, rep)
    uf_rules.check_U8(ctx, rep)
    uf_rules.check_U10(ctx, rep, TR, ('set_connections', 'reverse_set_connections'))
    uf_rules.check_U9(ctx, rep)
    uf_rules.check_U5(ctx, rep)
    byods_rules.check_L16(ctx, rep, ['trrel_union_find', 'union_find'])
    byods_rules.check_L17(ctx, rep)
    rep.floor('U1', 6, 'reads of elem_ids / items'); rep.floor('U2', 3); rep.floor('U3', 2); rep.floor('U4', 1); rep.floor('U5', 3); rep.floor('U6', 2); rep.floor('U7', 1); rep.floor('U8', 2); rep.floor('U9', 4); rep.floor('U10', 2)
    rep.floor('L16', 3); rep.floor('L17', 1)


def run_C19(ctx, rep):
    agg_rules.check_L9(ctx, rep, ['c_rel_no_index'])      # concurrent inserts land in a slot that exists, whatever worker inserts
    lib_rules.check_L1(ctx, rep)
    lib_rules.check_L1b(ctx, rep)
    lib_rules.check_L35(ctx, rep)
    lib_rules.classify_writers(ctx, rep)
    lib_rules.check_L4(ctx, rep)
    lib_rules.check_L6(ctx, rep)
    lib_rules.check_L7(ctx, rep)
    lib_rules.check_L13(ctx, rep)
    lib_rules.check_L27(ctx, rep)
    lib_rules.check_L31(ctx, rep)


def run_C20(ctx, rep):
    lib_rules.check_L8(ctx, rep)
    agg_rules.check_L9(ctx, rep, ['c_rel_no_index'])
    rep.floor('L9', 2, 'shard indexing in CRelNoIndex')
    lib_rules.check_L27(ctx, rep)
    # the shard amount depends on the pool that was current at the first parallel construction: a sampled emptiness test makes
    # the result depend on it
    lib_rules.check_L13(ctx, rep)
    # with one worker there is no race: an insertion that is not one critical section makes the result depend on the pool size
    lib_rules.check_L1(ctx, rep)
    lib_rules.check_L1b(ctx, rep)
    lib_rules.check_L35(ctx, rep)
    lib_rules.check_L31(ctx, rep)
    # the generated parallel code: dedup / append / row ids / the lattice insertion mutex protect what they have to under any number of
    # workers (with one worker every interleaving is sequential; a violation here makes the result depend on the pool size)
    gen_driver.run_gen(ctx, rep, ['G1G3', 'G14', 'G15'], only_par=True, floors={'G1': 100, 'G14': 100, 'G15': 15})


def run_C10(ctx, rep):
    uf_rules.check_U1(ctx, rep, 'union_find::EqRel::<T>::', 'elem_ids', ['get_dominant_id*'])
    uf_rules.check_U3(ctx, rep, ['union_find::EqRel::<T>::'])
    rep.floor('U1', 2); rep.floor('U3', 1)
    byods_rules2.check_L38(ctx, rep, ['eqrel_ternary', 'eqrel_ind', 'ceqrel_ind'])
    lib_rules.check_L13(ctx, rep)       # is_empty of every read view is exact (a rule is skipped when a body relation reports empty)
    byods_rules.check_L5(ctx, rep, 'eqrel_ternary')
    byods_rules.check_L15(ctx, rep)
    byods_rules2.check_L33(ctx, rep)
    byods_rules2.check_L34(ctx, rep, ['eqrel_ind', 'ceqrel_ind'])
    byods_rules.check_L16(ctx, rep, ['union_find'])
    byods_rules.check_L20(ctx, rep, ['union_find', 'eqrel_ind', 'eqrel_ternary', 'utils'])
    byods_rules.check_L23(ctx, rep, ['eqrel_ternary', 'eqrel_ind', 'ceqrel_ind'])
    rep.floor('L23', 5)
    byods_rules2.check_L22(ctx, rep, 'eqrel_ternary')
    byods_rules2.check_L28(ctx, rep, ['eqrel_ind', 'ceqrel_ind', 'eqrel_ternary', 'union_find'])
    rep.floor('L28', 1)
    for sc in ('eqrel_ternary', 'eqrel_ind', 'ceqrel_ind'):
        byods_rules2.check_L24(ctx, rep, sc)
    rep.floor('L22', 1); rep.floor('L24', 1)
    rep.floor('L20', 2)
    for sc in ('eqrel_ternary', 'eqrel_ind'):
        byods_rules.check_L18(ctx, rep, sc)
        byods_rules.check_L19(ctx, rep, sc)
    byods_rules.check_L4b(ctx, rep)
    rep.floor('L19', 1); rep.floor('L4b', 10)
    lib_rules.classify_writers(ctx, rep)
    gen_driver.run_gen(ctx, rep, ['G5', 'G1G3', 'G3r', 'UI'], only_tags=['eqrel'], floors={'G5.merge': 20})
    gen_driver.run_tv(ctx, rep, only_tags=['eqrel'], floors={'R1': 20})


def run_C11(ctx, rep):
    byods_rules2.check_L37(ctx, rep, ['trrel_ternary_ind', 'trrel_binary_ind'])
    byods_rules2.check_L38(ctx, rep, ['trrel_ternary_ind', 'trrel_binary_ind'])
    byods_rules2.check_L36(ctx, rep, [('trrel_rel_ind_common', 'trrel_ternary_ind')])
    lib_rules.check_L13(ctx, rep)       # is_empty of every read view is exact (a rule is skipped when a body relation reports empty)
    byods_rules.check_L5(ctx, rep, 'trrel_ternary_ind')
    byods_rules.check_L12(ctx, rep)
    byods_rules.check_L14(ctx, rep, 'trrel_binary_ind')
    byods_rules.check_L21(ctx, rep, 'trrel_binary_ind')
    byods_rules.check_L20(ctx, rep, ['binary_rel', 'trrel_binary', 'trrel_binary_ind', 'utils'])
    byods_rules.check_L23(ctx, rep, ['trrel_binary_ind', 'trrel_ternary_ind', 'trrel_binary', 'binary_rel'])
    rep.floor('L23', 8)
    byods_rules2.check_L22(ctx, rep, 'trrel_ternary_ind')
    byods_rules2.check_L29(ctx, rep, 'trrel_binary_ind')
    rep.floor('L29', 3)
    for sc in ('trrel_ternary_ind', 'trrel_binary_ind'):
        byods_rules2.check_L24(ctx, rep, sc)
    rep.floor('L22', 2); rep.floor('L24', 1)
    rep.floor('L20', 5)
    rep.floor('L21', 4)
    for sc in ('trrel_ternary_ind', 'trrel_binary_ind'):
        byods_rules.check_L18(ctx, rep, sc)
        byods_rules.check_L19(ctx, rep, sc)
    byods_rules.check_L4b(ctx, rep)
    rep.floor('L19', 2); rep.floor('L18', 2); rep.floor('L4b', 10)
    gen_driver.run_gen(ctx, rep, ['G5', 'G1G3', 'G3r', 'UI'], only_tags=['trrel'], floors={'G5.merge': 20})
    gen_driver.run_tv(ctx, rep, only_tags=['trrel'], floors={'R1': 15})


def run_C12(ctx, rep):
    _TR = 'trrel_union_find::TrRelUnionFind::<T>::'     # the structure behind the provider: the C18 clauses are necessary here too
    uf_rules.check_U1(ctx, rep, _TR, 'elem_ids', ['get_dominant_id*'])
    uf_rules.check_U2(ctx, rep, _TR, 'set_connections', 'reverse_set_connections',
                      [('set_of_by_set_id', 'rev_set_of_by_set_id'), ('set_of', 'rev_set_of'), ('get_set_connections', 'get_reverse_set_connections')])
    uf_rules.check_U3(ctx, rep, [_TR])
    uf_rules.check_U6(ctx, rep, _TR, 'set_connections', 'reverse_set_connections')
    uf_rules.check_U7(ctx, rep, 'trrel_union_find')
    rep.floor('U1', 3); rep.floor('U2', 3); rep.floor('U3', 1); rep.floor('U6', 2); rep.floor('U7', 1)
    byods_rules2.check_L37(ctx, rep, ['adaptor::bin_rel_to_ternary', 'trrel_union_find_binary_ind'])
    byods_rules2.check_L38(ctx, rep, ['adaptor::bin_rel_to_ternary', 'adaptor::bin_rel', 'trrel_union_find_binary_ind'])
    lib_rules.check_L13(ctx, rep)       # is_empty of every read view is exact (a rule is skipped when a body relation reports empty)
    byods_rules.check_L5(ctx, rep, 'adaptor::bin_rel_to_ternary')
    byods_rules.check_L14(ctx, rep, 'trrel_union_find_binary_ind')
    byods_rules.check_L21(ctx, rep, 'trrel_union_find_binary_ind')
    byods_rules.check_L20(ctx, rep, ['trrel_union_find', 'utils'])
    byods_rules.check_L23(ctx, rep, ['adaptor::bin_rel_to_ternary', 'trrel_union_find_binary_ind'])
    rep.floor('L23', 10)
    byods_rules2.check_L22(ctx, rep, 'adaptor::bin_rel_to_ternary')
    byods_rules2.check_L29(ctx, rep, 'trrel_union_find_binary_ind')
    byods_rules2.check_L30(ctx, rep)
    byods_rules2.check_L32(ctx, rep)
    byods_rules2.check_L36(ctx, rep, [('trrel_uf_ind_common', 'adaptor::bin_rel_to_ternary')])
    byods_rules2.check_L28(ctx, rep, ['trrel_union_find_binary_ind', 'trrel_union_find'])
    rep.floor('L29', 3)
    for sc in ('adaptor::bin_rel_to_ternary', 'adaptor::bin_rel::'):
        byods_rules2.check_L24(ctx, rep, sc)
    byods_rules2.check_L25(ctx, rep, 'trrel_union_find_binary_ind', 'trrel_union_find_binary_ind::TrRelDelta')
    byods_rules2.check_L26(ctx, rep, 'adaptor::bin_rel_to_ternary', ['trrel_union_find_binary_ind'])
    rep.floor('L22', 2); rep.floor('L24', 1); rep.floor('L25', 6); rep.floor('L26', 2)
    rep.floor('L20', 4)
    rep.floor('L21', 4)
    byods_rules.check_L16(ctx, rep, ['trrel_union_find'])
    byods_rules.check_L17(ctx, rep)
    for sc in ('adaptor::bin_rel_to_ternary', 'adaptor::bin_rel::', 'trrel_union_find_binary_ind'):
        byods_rules.check_L18(ctx, rep, sc)
        byods_rules.check_L19(ctx, rep, sc)
    byods_rules.check_L4b(ctx, rep)
    rep.floor('L19', 2); rep.floor('L18', 2); rep.floor('L4b', 10)
    gen_driver.run_gen(ctx, rep, ['G5', 'G1G3', 'G3r', 'UI'], only_tags=['trrel_uf'], floors={'G5.merge': 20})
    gen_driver.run_tv(ctx, rep, only_tags=['trrel_uf'], floors={'R1': 15})


def run_C05(ctx, rep):
    _lib_protocol(ctx, rep)
    lib_rules.check_L1(ctx, rep)
    lib_rules.check_L1b(ctx, rep)
    lib_rules.check_L35(ctx, rep)
    lib_rules.check_L31(ctx, rep)
    gen_driver.run_gen(ctx, rep, ['G1G3', 'USES', 'G5', 'G14', 'G15'], floors={'G1': 300, 'G1.lat': 20, 'G1.uses': 800, 'G5': 250, 'G15': 15})


def run_C02(ctx, rep):
    lib_rules.check_L1(ctx, rep)
    lib_rules.check_L1b(ctx, rep)
    lib_rules.check_L35(ctx, rep)
    lib_rules.check_L31(ctx, rep)
    lib_rules.check_L13(ctx, rep)
    lib_rules.check_L8(ctx, rep)        # "never panic for every thread count": the shard amount is admissible under every pool size
    # the parallel index types obey the same merge / combined-view obligations as the serial ones (what a parallel rule reads after a
    # merge is what the serial rule reads)
    lib_rules.check_L4(ctx, rep)
    lib_rules.check_L6(ctx, rep)
    lib_rules.check_L7(ctx, rep)
    gen_driver.run_gen(ctx, rep, ['G1G3', 'G2G7', 'G5', 'G6', 'G10', 'G12', 'G14', 'G15'], only_par=True, floors={'G1': 100, 'G6': 15, 'G10': 15, 'G4': 4, 'G14': 100, 'G15': 15})
    gen_driver.run_ser_par_twins(ctx, rep)


def _g17_verdict(rep):
    """one finding for one construct of the code generator (G17 instances are per lattice relation)"""
    bad = [i for i in rep.instances.get('G17', []) if i.endswith('False')]
    if bad:
        rep.viol('G17', 'generated update_indices_priv (lattice relations)', 'duplicate-key-rows-not-joined',
                 'run() re-indexes a lattice relation by filing every stored row under its key, last row wins: a fact pushed into a lattice '
                 'relation for a key that already has a row is never joined with it - after the re-run the relation holds two rows for the key '
                 '(the older one with a superseded value), a fresh run on the union of the inputs holds one (%d lattice relations in %d '
                 'programs; e.g. %s)' % (len(bad), len({i.split('::update_indices_priv')[0] for i in bad}), bad[0].split(':')[0]))


def run_C03(ctx, rep):
    gen_driver.run_gen(ctx, rep, ['G1G3', 'G3r.mono'], floors={'G1.lat': 20, 'G2.lat': 10, 'G4': 8, 'G3r': 100})
    # monotone tests of the lattice value (`marked(x, true)`, `val(x, Top)`) are inside C03's premise: for those programs the
    # value-keyed indices count as well
    gen_driver.run_gen(ctx, rep, ['G3r'], only_tags=['lat_top'])
    lattice_rules.check_L10(ctx, rep)
    # the lattice index types keep every row of a key through the delta -> total merge (a rule of a later iteration / stratum that
    # probes the lattice by part of its key reads the total)
    lib_rules.check_L4(ctx, rep)
    # "exactly one row for each key" also for rows the caller wrote into the field with equal keys
    gen_driver.run_gen(ctx, rep, ['G17'], floors={'G17': 30})
    _g17_verdict(rep)


def run_C13(ctx, rep):
    _lib_protocol(ctx, rep)
    gen_driver.run_gen(ctx, rep, ['UI', 'G6', 'G5', 'G8', 'G1G3', 'G3r.maint', 'G17'], floors={'G4.ui': 500, 'G3.ui': 500, 'G6': 15, 'G5': 250, 'G8': 60, 'G1': 300, 'G3r': 100, 'G17': 30})
    _g17_verdict(rep)


def run_C14(ctx, rep):
    _lib_protocol(ctx, rep)
    gen_driver.run_gen(ctx, rep, ['G2G7', 'G8', 'G1G3', 'UI'], floors={'G7': 6, 'G8': 60, 'G3.ui': 500})


def run_C04(ctx, rep):
    _lib_protocol(ctx, rep)
    gen_driver.run_gen(ctx, rep, ['G9', 'G12', 'G1G3', 'UI'], floors={'G9': 20, 'G12': 40})
    gen_driver.run_tv(ctx, rep, only_tags=['agg', 'neg'], floors={'R1': 50})
    # every index an aggregation / negation reads is maintained for derived rows (and not stale)
    gen_driver.run_gen(ctx, rep, ['G3r'], only_tags=['agg', 'neg'], floors={'G3r': 20})
    agg_rules.check_L11(ctx, rep)


def run_C15(ctx, rep):
    # the shadowing check collects the variables of a pattern with the pattern walkers of the macro crate: they reach every binding
    macro_rules.check_M3(ctx, rep)
    # the converse clause: every well-formed program of the corpus compiles
    failed = ctx.meta.get('corpus_failed') or []
    rep.inst('W.corpus', 'corpus families rejected by the macros: %s' % (failed or 'none'))
    for m in failed:
        rep.viol('W', 'corpus family ' + m, 'well-formed-rejected',
                 'well-formed programs of the corpus no longer compile: ' + (ctx.meta.get('corpus_first_error', {}).get(m) or 'see stderr'))
    n = witness_rules.run_witnesses(ctx, rep, ctx.tier)
    rep.floor('W', 185 if ctx.tier == 'quick' else 885, 'compile witnesses')
    return {'cov': {'exhaustive': True, 'witness_tier': ctx.tier}}


def run_C01(ctx, rep):
    n = gen_driver.run_tv(ctx, rep, floors={'R1': 200, 'R2': 190, 'R3': 80, 'R5': 350})
    gen_driver.run_gen(ctx, rep, ['G1G3', 'G2G7', 'G5', 'G8', 'G12', 'UI'], floors={'G1': 300, 'G5': 250, 'G12': 40})
    lib_rules.check_L13(ctx, rep)
    lib_rules.check_L4(ctx, rep)
    lib_rules.check_L7(ctx, rep)
    macro_rules.check_M3(ctx, rep)
    return {'cov': {'disagreements_checked': n}}


def run_C07(ctx, rep):
    sugar = ('t_neg_sugar', 't_wild_sugar', 't_pat_sugar', 't_rep_sugar', 't_rep2_sugar', 't_mh_sugar', 't_disj_sugar')
    gen_driver.run_twins(ctx, rep, lambda n, k: n.replace('_par', '') in sugar, floors={'T.C': 8, 'T.L': 4})
    gen_driver.run_tv(ctx, rep, only_tags=['twin', 'repeated', 'wild', 'patarg', 'multihead', 'facts', 'consts', 'neg', 'combo', 'conds', 'agg_rep'], floors={'R1': 60})
    macro_rules.check_M1(ctx, rep)


def run_C08(ctx, rep):
    gen_driver.run_twins(ctx, rep, lambda n, k: n.replace('_par', '') in ('t_mac_sugar', 't_macn_sugar', 't_mach_sugar', 't_macd_sugar', 't_maca_sugar', 't_macx_sugar', 't_macs_sugar', 't_macf_sugar', 't_macb_sugar', 't_macg_sugar', 't_mace_sugar'), floors={'T.L': 22})
    gen_driver.run_tv(ctx, rep, only_tags=['twin'], floors={'R1': 40})
    witness_rules.run_witnesses(ctx, rep, ctx.tier, kinds=('macro_self_rec', 'macro_mutual_rec', 'macro_head_rec', 'macro_rec3', 'macro_rec_in_disj', 'macro_double_rec_head', 'macro_double_rec_disj', 'macro_double_rec_body'))
    macro_rules.check_M2(ctx, rep)
    macro_rules.check_M3(ctx, rep)
    macro_rules.check_M4(ctx, rep)
    macro_rules.check_M5(ctx, rep)
    rep.floor('M5', 2)


def run_C09(ctx, rep):
    names = ('pk_ascent', 'pk_ascent_par', 'pk_init_ascent', 'timeout', 'timeout_par', 'ruletimes', 't_redecl', 't_redecl_clear', 'generic',
             'inc_start', 'inc_mid', 'inc_end', 'inc_start_par', 'inc_mid_par', 'inc_end_par',
             'inc_redecl_after', 'inc_redecl_before', 'inc_redecl_around', 'inc_agg', 'inc_agg_par', 'inc_lat',
             'inc_attr_mrt', 'inc_attr_to', 'inc_attr_irp', 'inc_attr_two')
    gen_driver.run_twins(ctx, rep, lambda n, k: n in names, floors={'T.C': 23})
    # `ascent!` builds the indices in Default::default() (initialised relations) and again in run(), `ascent_run!` once: the two
    # packagings agree only if re-indexing starts from empty indices (UI: G3.ui / G4.ui)
    gen_driver.run_gen(ctx, rep, ['G2G7', 'G8', 'UI'], floors={'G7': 6, 'G8': 60, 'G4.ui': 500})
    # ascent_run!: the rules mean what their text says, captured locals included (they are constants of the rule)
    gen_driver.run_tv(ctx, rep, only_tags=['run'], floors={'R1': 10})


def run_C06(ctx, rep):
    names = ('t_perm_rules', 't_perm_decls', 't_perm_heads', 't_perm_body', 't_renamed', 'generic')
    gen_driver.run_twins(ctx, rep, lambda n, k: n.replace('_par', '') in names, floors={'T.L': 4, 'T.S': 4, 'T.C': 2})
    gen_driver.run_tv(ctx, rep, floors={'R3': 80})
    gen_driver.run_gen(ctx, rep, ['G12', 'G3r', 'G8'], floors={'G12': 40, 'G3r': 100, 'G13': 30, 'G16': 2})
    lib_rules.check_L13(ctx, rep)
    # what an index holds after a merge does not depend on which side was larger / on the order in which the rules filled it
    lib_rules.check_L4(ctx, rep)
    lib_rules.check_L7(ctx, rep)


PROPS = {
    'C07': {
        'run': run_C07, 'level': 'translation_validation',
        'explanation': 'twin comparison of the current macro\'s output for each sugared form and its documented core expansion: `!r` vs agg () = not(), '
                       '`_` vs fresh variable, `?pat` vs fresh variable + if-let, repeated variable / same-clause expression vs fresh variable + '
                       'equality test (normalised generated code identical, alpha-renaming of bindings); multi-head rule vs one rule per head, '
                       'disjunctions (incl. nested, with negation) vs the product of rules (reconstructed logical rule variants identical); serial '
                       'and parallel; plus R1 on the core side (the expansion itself evaluates the rule text).',
        'assumptions': ['forms outside the enumerated combinations are not covered'],
        'rule_text': 'one instance = one twin pair (T.*) / one translation-validated rule variant (R1)',
        'technique': 'static: twin comparison of normalised typed HIR of two macro expansions + translation validation',
    },
    'C08': {
        'run': run_C08, 'level': 'translation_validation',
        'explanation': 'hygiene of in-program macros: the program with macro invocations (same macro twice in a rule, call-site variable spelled like a '
                       'macro-local one, macro inside a disjunction and again later in the rule, macro-local variables in let / if, nested macros, '
                       'macro in head position, ident and expr parameters) and its hand expansion with explicitly fresh names reconstruct to identical '
                       'logical rule variants (binding identity by id, alpha-renaming); the hand expansion is translation-validated (R1); self-, '
                       'mutually- and head-recursive macros are rejected (compile witnesses).',
        'assumptions': ['macro bodies beyond the enumerated shapes are not covered'],
        'rule_text': 'one instance = one twin pair / one witness / one validated rule variant',
        'technique': 'static: twin comparison of reconstructed logical rules + compile-fail witnesses',
    },
    'C09': {
        'run': run_C09, 'level': 'translation_validation',
        'explanation': 'packaging variants expand to identical normalised code: ascent!+run() vs ascent_run! (serial, parallel, with relation '
                       'initialisers), include_source! at the start / middle / end vs pasted text (serial and parallel), generate_run_timeout and '
                       'measure_rule_times on vs off (only the deadline exits / timing statements differ: G7), re-declared relation vs last '
                       'declaration only (initialiser included), generic vs monomorphic signature (logical rules); G8 for initialised relations.',
        'assumptions': ['the segment-codegen feature only toggles an inline attribute (not re-derived here)'],
        'rule_text': 'one instance = one twin pair / one stratum exit / one prologue',
        'technique': 'static: twin comparison of normalised typed HIR of two macro expansions',
    },
    'C06': {
        'run': run_C06, 'level': 'translation_validation',
        'explanation': 'plan independence and parametricity: both run-time join orders of every reorderable rule evaluate the same rule (R3), the '
                       'empty-relation shortcut only tests relations that a positive clause reads and is_empty is exact (G12, L13); permuted rules / '
                       'declarations / head clauses expand to the same logical rule variants (twins), permuted independent body items and a '
                       'consistently renamed program are each translation-validated against specs that are equal as sets; the generic-column-type '
                       'twin type-checks and evaluates the same logical rules as the monomorphic program.',
        'assumptions': ['independence of HashMap iteration order beyond set semantics is not decided', 'identifiers reserved by generated code aside'],
        'rule_text': 'one instance = one plan choice (R3) / one twin pair / one guard operand',
        'technique': 'static: translation validation + twin comparison; no execution',
    },
    'C01': {
        'run': run_C01, 'level': 'translation_validation',
        'explanation': 'static translation validation of the generated evaluation code of every corpus program against its logical spec (derived '
                       'independently from the program text, without any planning decision): R1 every rule-variant closure is reconstructed '
                       'into the conjunctive query it evaluates (relation, version, index key terms, bound columns, conditions, generators, heads; '
                       'variable identity through binding ids + union-find) and must equal a rule of the program; R2 the variants cover all '
                       'delta/total assignments of the recursive clauses (n<=4) except all-total; R3 both run-time join orders evaluate the same '
                       'rule; R5 stratum order / looping; plus the protocol the derivations go through: guarded insertion and index maintenance '
                       '(G1,G3), change flag and loop exit (G2), version shift (G5), re-indexing first (G8), sound empty-relation shortcut (G12, L13), '
                       'merge and combined-view obligations of the library (L4, L7). For all inputs; programs bounded by the corpus.',
        'assumptions': ['the std / hashbrown / dashmap containers behave as maps', 'termination is not decided', 'programs outside the corpus matrix are not covered'],
        'rule_text': 'one instance = one reconstructed rule variant (R1), one rule\'s version cover (R2), one plan choice (R3), one dependency (R5), one protocol site (G*)',
        'technique': 'static translation validation: typed-HIR reconstruction of generated rule code vs. independently parsed rule text; no execution',
    },
    'C15': {
        'run': run_C15, 'level': 'other',
        'explanation': 'compile-fail witnesses decided by the stable Rust compiler (nothing is run): for each ill-formedness kind of the property '
                       '(undeclared relation in head / body / agg / negation, wrong arity in the same four positions, aggregation or negation '
                       'inside the own recursive stratum - directly, through a 2-cycle and a 3-cycle in EVERY order of the rules, rebinding by '
                       'let / for / agg pattern / if-let, self- mutually- and head-recursive macros, include_source! inside ascent_source!, #[ds] on '
                       'a lattice, two #[ds], unknown inner attribute / attribute with arguments, attribute on a rule / macro, inter_rule_parallelism in a serial '
                       'macro, empty lattice, undefined macro, missing macro arguments, unbound head variable, wildcard in a head) x '
                       'position x the four macros: the crate fails to compile, a diagnostic with the expected text has its primary span in the '
                       'program, no macro panic / ICE, and the twin differing only in the offending construct compiles.',
        'assumptions': ['kinds outside the enumerated matrix are not decided', 'message quality beyond the fragment is not judged'],
        'rule_text': 'one instance = one witness crate (kind x variant x macro) with its compiling twin; the matrix of the tier is enumerated completely',
        'technique': 'static: compile-fail witnesses with compiling twins, decided by rustc (stable) type checking / macro expansion only',
    },
    'C05': {
        'run': run_C05, 'level': 'other',
        'explanation': 'G1 on every append site of every generated program (corpus + programs shipped in /repo), serial and parallel, plain and '
                       'lattice: a row is appended only inside the success branch of insert_if_not_present on the NEW version of the full '
                       'index of the same relation, itself inside !contains_key(total) && !contains_key(delta) for the same row, and the '
                       'appended tuple is that row; lattice rows are created only after the key was looked up in new, delta and total of the '
                       'key index (parallel: under the key-hashed mutex after re-checking new); inventory of every use of a relation row store '
                       '(no removal / overwrite); G5: the full index that deduplicates is shifted unconditionally and stored back from its total '
                       'version (it never loses entries); L1: the library operation is one critical section. Holds for all inputs and schedules '
                       'because no input or schedule is looked at.',
        'assumptions': ['hashbrown / dashmap entry APIs are atomic per shard', 'Hash/Eq of user column types are consistent'],
        'rule_text': 'one instance = one append site / one use of a row store / one library implementation',
    },
    'C02': {
        'run': run_C02, 'level': 'other',
        'explanation': 'schedule-independence obligations on every parallel program of the corpus and of /repo: atomic dedup and guarded append '
                       '(G1, L1), atomic change flag set by every inserting block and loop exit after the merges (G2), version protocol (G5), '
                       'freeze typestate - readers see frozen, writers unfrozen indices, simulated over two runs (G6), acyclic lock order and no '
                       'guard across a fork/join (G10), re-queued lattice rows go to idempotent index types (G4), is_empty of the index views is '
                       'exact (L13) and the empty-relation shortcut sound (G12); the serial and the parallel expansion of every corpus program '
                       'reconstruct to the same logical rule variants (T.SP). NOT decided: DashMap / boxcar / rayon internals, user code panics.',
        'assumptions': ['dashmap, boxcar, rayon are linearizable / deadlock free', 'user expressions do not panic or block'],
        'rule_text': 'one instance = one append site, one typestate requirement, one guard, one merge, one library implementation',
    },
    'C03': {
        'run': run_C03, 'level': 'other',
        'explanation': 'lattice update protocol on every lattice head update of corpus + shipped programs: lookup chain over new/delta/total of the '
                       'key index, join_mut into the last column of the found row, re-queue guarded by exactly the join_mut result (parallel: '
                       'and not-already-in-new), re-queue into every non-full index whose writer is idempotent (G4), every index that a rule '
                       'reads is maintained by the head updates (G3r), plus L10 (join_mut reports changes truthfully). NOT decided: monotonicity of '
                       'user rules.',
        'assumptions': ['user lattice types outside ascent_base obey the Lattice contract', 'rules use lattice values monotonically'],
        'rule_text': 'one instance = one lattice head-update site / one read index / one Lattice impl path',
    },
    'C13': {
        'run': run_C13, 'level': 'other',
        'explanation': 're-run obligations over corpus + shipped programs: run() starts by rebuilding every index from every stored row (G8, '
                       'G3.ui full scan, unconditional), into indices that are reset or written by an idempotent writer (G4.ui), every index field '
                       'is in the writable state at that point on the first and on later calls (G6 simulated across two runs), every stored fact '
                       'of a head relation becomes delta of its stratum (G5 take(field) form) and every head insertion is deduplicated against '
                       'delta as well as total (G1), so re-evaluating all rules over the stored facts adds nothing.',
        'assumptions': ['users do not modify index fields (private)'],
        'rule_text': 'one instance = one (index field, rebuild site) / one typestate requirement / one stratum',
    },
    'C14': {
        'run': run_C14, 'level': 'other',
        'explanation': 'run_timeout obligations: early exit only as `if timeout < MAX && elapsed >= timeout {return false}` after the merges of an '
                       'iteration (G7), true only as the final expression, run() == run_timeout(MAX), no early exit without the attribute; '
                       'soundness at every program point via guarded insertion (G1) and resumability via full, unconditional re-indexing at the next '
                       'run (G8, G3.ui). Deadlines are not sampled: the rules hold at every point.',
        'assumptions': ['Instant is monotonic'],
        'rule_text': 'one instance = one stratum exit / one append site / one rebuild site',
    },
    'C04': {
        'run': run_C04, 'level': 'other',
        'explanation': 'stratum finality and exactly-once feeding: every aggregation / negation site reads the total version of a body-only index of a '
                       'relation that no same-or-later stratum writes (G9); index entries are one per row (G1 uniqueness, G3 one insertion per row '
                       'and index, G4 no accumulation on re-run or on lattice updates); every aggregation / negation of the corpus is translation-validated '
                       '(R1: lookup key = exactly the non-aggregated, non-wildcard arguments incl. identifiers from outside the rule, the aggregator '
                       'receives the bound columns in declared order); the empty-relation shortcut never tests an aggregated relation (G12); shape of '
                       'the library aggregators (L11).',
        'assumptions': ['aggregator arithmetic is not decided'],
        'rule_text': 'one instance = one aggregation site / one index maintenance site',
    },
    'C10': {
        'run': run_C10, 'level': 'other',
        'explanation': 'structural obligations of the eqrel provider: L5 the delta / total produced by every per-key merge of the ternary '
                       'wrapper is a place of the caller\'s delta / total or is stored back (sibling cross-check with the trrel and '
                       'trrel_uf wrappers); L15 the binary merge (serial and parallel siblings) computes total.combined=D, delta.old=D, '
                       'delta.combined=D+N, new=empty by abstract interpretation over symbolic contents; L16 the read-only find follows the '
                       'subsumption chain to its root; on the corpus programs backed by the provider (binary / ternary, every supported access '
                       'pattern, non-recursive and recursive stratum, parallel binary form) the generated protocol holds: exactly one real '
                       'shift of the shared structure per iteration - index views must not shift it again (G5), guarded insertion (G1), every '
                       'rule variant reads the relation as the rule text says (R1-R5). Added: L18 the two write paths of a write view update the same parts of the structure; L19 every reverse map is shifted new->delta->total under a guard on its own field (abstract interpretation over the three versions); L22 because the per-key merge derives pairs, the delta\'s reverse maps are completed from the per-key deltas; L20 add/insert report true on every path that changed the structure; L23 size estimates divide only by counts that are non-zero by construction; L24 iter_all is not weaker than a filtering index_get; L4b the move_*_contents helpers drain `from` completely into `to`; '
                       'NOT decided: that EqRel is an equivalence closure, that the index views enumerate exactly combined minus old.',
        'assumptions': ['EqRel (union-find with set subsumptions) add/combine are correct on values', 'index views are not analysed'],
        'rule_text': 'one instance = one per-key merge call site / one merge sequence / one find hit-arm / one writer',
    },
    'C11': {
        'run': run_C11, 'level': 'other',
        'explanation': 'structural obligations of the trrel provider: L5 (per-key merge outputs persist in the ternary wrapper), L12 the '
                       'reflexivity filter of the closure loop is not hard-wired on (constant propagation over all constructions of the '
                       'flag), L14 every join step of the inner semi-naive loop runs in every round (no short-circuit / dependent branch), '
                       'L21 the steps of that loop cover (frontier,total), (total,frontier) and a generator-linear step (operand classes by dataflow). L18 the two write paths of a write view update the same parts of the structure; L19 every reverse map is shifted new->delta->total under a guard on its own field (abstract interpretation over the three versions); L22 because the per-key merge derives pairs, the delta\'s reverse maps are completed from the per-key deltas; L20 add/insert report true on every path that changed the structure; L23 size estimates divide only by counts that are non-zero by construction; L24 iter_all is not weaker than a filtering index_get; L4b the move_*_contents helpers drain `from` completely into `to`; '
                       'NOT decided: the body of `join`, can_add on values.',
        'assumptions': ['the helper `join` composes its two operands as its signature says', 'can_add is correct on values'],
        'rule_text': 'one instance = one per-key merge call site / one construction of the flag / one loop step',
    },
    'C12': {
        'run': run_C12, 'level': 'other',
        'explanation': 'structural obligations of the trrel_uf provider: L5 on the binary-to-ternary adaptor, L14 on the inner loop of the '
                       'union-find backed merge, L16 find follows the subsumption chain, L17 sibling agreement of set_of / rev_set_of on '
                       'canonicalising class ids, L21 operand cover of the closure loop. L18 the two write paths of a write view update the same parts of the structure; L19 every reverse map is shifted new->delta->total under a guard on its own field (abstract interpretation over the three versions); L22 because the per-key merge derives pairs, the delta\'s reverse maps are completed from the per-key deltas; L20 add/insert report true on every path that changed the structure; L23 size estimates divide only by counts that are non-zero by construction; L24 iter_all is not weaker than a filtering index_get; L4b the move_*_contents helpers drain `from` completely into `to`; '
                       'L25 the delta views admit a pair inside one class and the merge seeds the reflexive pair of first-mentioned elements; '
                       'L26 no assertion on the total is reachable with the fresh default delta the adaptor passes with an occupied total; '
                       'L30 every scan of the union-find total enumerates from a field add_node_new writes (complete registry). '
                       'NOT decided: TrRelUnionFind itself, the New/Delta/Total bookkeeping beyond these rules; panic freedom only for the two '
                       'shapes of L23 and L26.',
        'assumptions': ['TrRelUnionFind::add / add_set_connection are correct on values', 'no panic other than the two decided shapes'],
        'rule_text': 'one instance = one per-key merge call site / one loop step / one find hit-arm / one sibling pair',
    },
    'C18': {
        'run': run_C18, 'corpus': False, 'level': 'other',
        'explanation': 'NOT the behaviour over operation histories (value-level, out of reach of a static argument) but ten structural clauses every '
                       'correct answer of TrRelUnionFind / EqRel / uf::UnionFind depends on, decided on the typed HIR: U1 a class id read from the lazily '
                       'maintained element table (`elem_ids`, `items`) goes through the find function (get_dominant_id* / Elems::find, or a method that '
                       'resolves its id parameter first) before it indexes `sets`, keys a connection table or is handed out (taint over let / match / '
                       'closure bindings); U2 set_of / rev_set_of, set_of_by_set_id / rev_set_of_by_set_id and get_set_connections / '
                       'get_reverse_set_connections read mirror-image field sets (transitively through methods of self); U3 where a class set is taken out '
                       'of `sets[S]` its members are merged into `sets[F]`, F != S, and `set_subsumptions.insert(S, F)` is written with that S and F; '
                       'U6 a class-level edge whose insertion into `set_connections` is tested for novelty is mirrored into `reverse_set_connections` with the ends swapped; '
                       'U7 the two branches of the size-dispatched set subtraction (remove-loop / retain) compute the same difference; '
                       'U8 a fresh element of uf is its own root and ring under the id of its slot (id = self.next() taken before the vector push, returned, and filed in `items`); '
                       'U9 Elem::union puts `other` under self\'s root and exchanges the ring pointers, each branch of union_by_rank returns the parent of the receiver of union, union_internal returns the find result it compared the new root with; '
                       'U10 a query that appends its own class id to the ids of a class-edge table entry has filtered that id out first (each class once); '
                       'U4 the linking step of uf (Elem::union_by_rank) is applied to the `.elem` of two Elems::find results taken for two different ids; '
                       'U5 Elems::find hands out (id, elem) only under `id == elem.parent` for the element fetched for id, and redirects parent pointers '
                       'only to ids read from parent pointers; L16 find follows subsumption chains; L17 siblings agree on resolving their id parameter. '
                       'NOT decided: that the answers equal the reference closure, the closedness of set_connections under add_set_connection / '
                       'merge_multiple, the internal consistency assertions, panic freedom.',
        'assumptions': ['hashbrown maps and sets behave as maps and sets', 'the class-level edge tables are kept transitively closed by add_set_connection / merge_multiple (not decided)',
                        'value-level agreement with the reference closure is not decided'],
        'rule_text': 'one instance = one read of an element table / one sibling pair / one collapse site / one linking call / one result or parent write of find',
        'design_ref': 'DESIGN.md section 4 (C18) and section 14',
    },
    'C19': {
        'run': run_C19, 'corpus': False, 'level': 'other',
        'explanation': 'protocol obligations of the index building blocks of `ascent`, decided on the typed HIR: L1 insert-if-absent '
                       'is one entry operation (occupied: false, no write; vacant: insert + true) under the shard write lock for the '
                       '&self variants; L2/L3 every index_insert keeps its value on every path (writer classification derived); '
                       'L4 every move_index_contents drains `from` completely into `to` on every path, size swaps exchange from/to '
                       'themselves, shard-wise zips are guarded by an equality assertion; default merge = (total+=delta, delta=new, '
                       'new=empty) by abstract interpretation over the three set variables; L6 freeze/unfreeze carry the payload over; '
                       'L7 the combined view reads both parts. NOT decided: multimap behaviour of HashMap/DashMap/hashbrown themselves.',
        'assumptions': ['std / hashbrown / dashmap containers behave as maps and sets', 'rayon for_each visits every zipped pair'],
        'rule_text': 'one instance = one obligation of one implementation (entry arm, drain loop, swap, freeze arm, delegated part)',
    },
    'C20': {
        'run': run_C20, 'level': 'other',
        'explanation': 'L8: inventory of all statics of ascent / ascent_base / ascent-byods-rels; values of mutable statics never flow '
                       'into logic (only `STATIC += ..` stores), no interior-mutable process-wide cell except the once-initialised '
                       'shard amount, which every DashMap construction uses (so shard-wise merges cannot depend on the pool current at '
                       'construction time); L9: the per-thread shard of CRelNoIndex is reduced modulo the instance\'s own shard vector. '
                       'Decides isolation of process-wide state and pool-independent indexing, NOT equality of results across pools.',
        'assumptions': ['rayon::current_thread_index() / current_num_threads() are only consulted at the checked sites'],
        'rule_text': 'one instance = one static, one use of a mutable static, one DashMap construction, one shard indexing',
    },
    'C17': {
        'run': run_C17, 'corpus': False, 'level': 'other',
        'explanation': 'L9: every panicking indexing operation in ascent::aggregators has an index bounded by the indexed vector '
                       '(modulo its len, clamped under a non-empty guard, or dominated by i < len) - totality on the index; '
                       'L11: shape of each library aggregator (fold polarity of min/max, Option vs once for the empty-input behaviour, '
                       'size_hint shortcut of count only when lower == upper and no workspace iterator lies about size_hint, '
                       'guarded division in mean, `not` yields iff next() is None - by abstract evaluation of its two cases). '
                       'Decides totality and shape, NOT arithmetic (overflow, rounding, percentile rank).',
        'assumptions': ['std iterator adaptors (min, max, sum, count, size_hint of std iterators) are correct',
                        'arithmetic of sum/mean and the rank definition of percentile are not decided'],
        'rule_text': 'one instance = one indexing operation (L9) or one shape obligation of one aggregator (L11)',
    },
    'C16': {
        'run': run_C16, 'corpus': False, 'level': 'other',
        'explanation': 'L10: path-enumerating abstract interpretation (typed HIR, no execution) of every impl of Lattice / '
                       'BoundedLattice in ascent_base: polarity of delegated operations (inverted exactly for Dual / Reverse), '
                       'direction of the comparison that replaces self, unconditional evaluation and result flow of delegated '
                       '*_mut calls, assignment => true / no-mutation => not true. Decides the wiring and change-flag clauses '
                       'of C16, NOT the algebraic laws on values.',
        'assumptions': ['PartialOrd/Ord of primitive types and std containers are correct',
                        'value-level laws (commutativity, associativity, absorption, Set/BoundedSet/ConstPropagation tables) are not decided'],
        'rule_text': 'one instance = (impl method, assumed ordering outcome, path) for Q/R/S and (call site) for P; '
                     'distinct = distinct (rule, instance descriptor) pairs',
    },
}


# what the later rounds added to each check (kept apart from the original texts above)
_ADDENDA = {
    'C02': ' Also: L31 (no single non-blocking lock attempt), L1b (shared-reference writers touch the DashMap once), L8 (the shard amount is a power of two >= 2 '
           'under every pool size), G14 / G15, and the library merge / view rules L4, L6, L7, L13 on the parallel index types.',
    'C03': ' Also: L4 on the lattice index types, L10.C / L10.PO / L10.W / L10.SO through L10, and G17 (rows with equal keys are joined when the indices are '
           'rebuilt - open finding, see known_findings.txt).',
    'C04': ' Also: the library protocol rules L4, L6, L7, L13; corpus shapes: aggregate result used by a later clause, lattice values written as expressions '
           'under negation / aggregation, aggregators given as parenthesised expressions.',
    'C05': ' Also: G14 / G15 (parallel row ids, lattice insertion mutex), L31, L1b, and the library protocol rules L4, L6, L7, L13.',
    'C06': ' Also: G16 (relation initialisers are evaluated in textual order), L13, L4, L7.',
    'C08': ' Also: twins for attached conditions, disjunctions, struct patterns / expressions, fresh-name spaces, scoping inside macro-body expressions (block let, '
           'closure, match arm, guard), aggregations, empty macro bodies, unary arguments; M3, M4 (incl. the Agg arms), M5 on the macro crate.',
    'C09': ' Also: include next to re-declarations / with aggregation / with a lattice / with inner attributes, G16, the update_indices rules (G3.ui, G4.ui), R1 on '
           'ascent_run! programs with captured locals spelled like generated names, initialised relations read only in their own recursive stratum.',
    'C10': ' Also (from C18, on the EqRel behind the provider): U1 stored class ids go through the find function before they are used or handed out, U3 a union moves the members and writes the forwarding entry in that direction. Also: L38 (no unordered-pairs adaptor in a two-column index enumeration), L15 path-enumerating, L13, L28, L33 (combine keeps one-element classes), L34 (no element-level exclusion in the delta views), L22 ordering / '
           'hinge / unconditional completion.',
    'C11': ' Also: L36 (reverse-map flags of the provider macro), L37 (column order), L38, L13, L14 guard rule (a step may only stand under an emptiness test of its own operands), L22 ordering / hinge / unconditional completion, L29.',
    'C12': ' Also (from C18, on the TrRelUnionFind behind the provider): U1 id resolution, U2 direction mirror of the query siblings, U3 collapse completeness, U6 edges mirrored into the reverse table, U7 set subtraction branches agree. Also: L36 (reverse-map flags of the provider macro), L37 (column order), L38, L13, L28, L29, L30 (scan source of the union-find total), L32 (class ids are taken after the last collapsing call), L22 as for C10.',
    'C13': ' Also: the library protocol rules L4, L6, L7, L13; G17 (rows of a lattice relation with equal keys are joined when the indices are rebuilt - open '
           'finding, see known_findings.txt).',
    'C14': ' Also: the library protocol rules L4, L6, L7, L13.',
    'C15': ' Also: the converse clause (every family crate of the well-formed corpus compiles), a deadline for hanging expansions, witnesses next to an '
           'include_source!, unknown relation / lattice attributes (identifier and path), uninvoked recursive macros, @-pattern rebinding; M3 on the pattern walkers.',
    'C16': ' Also: L10.B (bound tests), L10.T (late snapshot), L10.C (case table of the flat lattice ConstPropagation decided over 4 x 4 abstract pairs), L10.PO '
           '(undefined intermediate comparisons are handed on), L10.W (change flag across a swap of the receiver), L10.SO (inclusion order under containment tests).',
    'C17': ' Also: L11 mean accumulates in f64, count uses a size hint only under lower == upper, percentile ranks over the multiset, L11.all (no row-dropping adaptor).',
    'C19': ' Also: L35 (no &mut through data_ptr() of a lock), L13, L27 (whole-index walks leave no shard out), L31, L1b, L9 on the slot index of CRelNoIndex, L4 O2c (collection-valued overwriting insert) and '
           'quiet early exits in the merge loops.',
    'C20': ' Also: G1 / G14 / G15 on the generated parallel code, L8 lower bound of the shard amount over all pool sizes, L13, L27, L1 / L1b / L31 (an insertion that is not one critical section makes the result '
           'depend on the pool size).',
}
for _pid, _txt in _ADDENDA.items():
    if _pid in PROPS and 'explanation' in PROPS[_pid]:
        PROPS[_pid]['explanation'] = PROPS[_pid]['explanation'] + _txt
