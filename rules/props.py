"""Property -> rules table."""
import lattice_rules


def run_C16(ctx, rep):
    lattice_rules.check_L10(ctx, rep)


PROPS = {
    'C16': {
        'run': run_C16, 'corpus': False, 'level': 'other',
        'explanation': 'L10: path-enumerating abstract interpretation (typed HIR, no execution) of every impl of Lattice / '
                       'BoundedLattice in ascent_base: polarity of delegated operations (inverted exactly for Dual / Reverse), '
                       'direction of the comparison that replaces self, unconditional evaluation and result flow of delegated '
                       '*_mut calls, assignment => true / no-mutation => not true. Decides the wiring and change-flag clauses '
                       'of C16, NOT the algebraic laws on values.',
        'assumptions': ['PartialOrd/Ord of primitive types and std containers are correct',
                        'value-level laws (commutativity, associativity, absorption, Set/BoundedSet/ConstPropagation tables) are not decided'],
        'rule_text': 'one instance = (impl method, assumed ordering outcome, path) for Q/R/S and (call site) for P; '
                     'distinct = distinct (rule, instance descriptor) pairs',
    },
}
