"""Dominating-condition facts on the typed-HIR tree.

`conds_at(parents, node)` returns the list of (condition-expr, polarity) that are known to hold when `node` is
evaluated, derived only from tree containment:
  * node inside the `then` of `if C`      -> (C, True)   (for `A && B` both conjuncts)
  * node inside the `else` of `if C`      -> (C, False)
  * node after a statement `if C { <diverges> }` in an enclosing block -> (C, False)
  * node inside the right operand of `A && B` -> (A, True); of `A || B` -> (A, False)
No value reasoning is done here; callers match the condition expressions structurally."""
from facts import children, callee
from tree import strip


def diverges(n):
    n = strip(n)
    k = n.get('k')
    if k in ('ret', 'break', 'continue'):
        return True
    if k == 'block':
        for s in n['ss']:
            if s['k'] in ('expr', 'semi') and diverges(s['e']):
                return True
        return 'e' in n and diverges(n['e'])
    if k in ('call', 'mcall'):
        t = n.get('t')
        c = callee(n)
        name = (c or {}).get('d', '')
        if name.endswith(('panicking::panic', 'panicking::panic_fmt', 'panic_display', 'unreachable_display',
                          'panicking::panic_explicit', 'begin_panic', 'process::exit', 'panicking::assert_failed')):
            return True
    if k == 'if' and 'el' in n:
        return diverges(n['th']) and diverges(n['el'])
    if k == 'match':
        return all(diverges(a['b']) for a in n['arms']) and len(n['arms']) > 0
    return False


def split_and(c, pol, out):
    c = strip(c)
    if c.get('k') == 'binary' and c['op'] == '&&' and pol:
        split_and(c['l'], True, out); split_and(c['r'], True, out)
    elif c.get('k') == 'binary' and c['op'] == '||' and not pol:
        split_and(c['l'], False, out); split_and(c['r'], False, out)
    elif c.get('k') == 'unary' and c['op'] == 'not':
        split_and(c['e'], not pol, out)
    else:
        out.append((c, pol))


def conds_at(parents, node):
    out = []
    chain = list(parents) + [node]
    for i, p in enumerate(chain[:-1]):
        nxt = chain[i + 1]
        k = p.get('k')
        if k == 'if':
            if nxt is p['th']:
                split_and(p['c'], True, out)
            elif p.get('el') is nxt:
                split_and(p['c'], False, out)
        elif k == 'binary' and p['op'] in ('&&', '||') and nxt is p['r']:
            split_and(p['l'], p['op'] == '&&', out)
        elif k == 'block':
            # statements before the one that contains `nxt`
            for s in p['ss']:
                if s is nxt:
                    break
                if s['k'] in ('expr', 'semi'):
                    e = strip(s['e'])
                    if e.get('k') == 'if' and 'el' not in e and diverges(e['th']):
                        split_and(e['c'], False, out)
                    elif e.get('k') == 'if' and 'el' in e and diverges(e['th']) and not diverges(e['el']):
                        split_and(e['c'], False, out)
                    elif e.get('k') == 'if' and 'el' in e and diverges(e['el']) and not diverges(e['th']):
                        split_and(e['c'], True, out)
    return out
