"""R-rules: static translation validation of generated rule code against the logical spec of the corpus programs.

R1 reconstruct, from every rule-variant closure, the conjunctive query it evaluates (which relation/version is read through
   which index with which key terms, which columns are bound to which variables, conditions / generators / aggregations in
   nesting order, the head rows) and compare it with the spec rule; variable identity is checked through binding ids with a
   union-find (a re-bound, shadowing variable is a lost equality).
R2 the variants of one rule cover every delta/total assignment of its dynamic clauses except all-total.
R3 both branches of a run-time plan choice validate against the same rule.
R4 conditions, generators, aggregations, head arguments (checked inside R1's comparison).
R5 stratum placement respects dependencies; a stratum loops iff it reads what it writes.
Any index / join order that reconstructs to the right query is accepted: the rules do not predict the macro's plan."""
import itertools, re
from facts import walk, callee, children, pp
from tree import strip, cname, lit_bool, pat_bindings
from lib_rules import chain_root
from genmodel import self_field, local_of, is_call_to, Unrecognised
from gen_rules import operand, tyhead
from core import Broken


def norm(s):
    return re.sub(r'\s+', '', s or '')


class UF:
    def __init__(self):
        self.p = {}

    def find(self, x):
        self.p.setdefault(x, x)
        while self.p[x] != x:
            self.p[x] = self.p[self.p[x]]
            x = self.p[x]
        return x

    def union(self, a, b):
        self.p[self.find(a)] = self.find(b)


class Plan:
    def __init__(self):
        self.items = []      # dicts
        self.heads = []
        self.guard = None
        self.branch = ''


def unclone(e):
    """strip `.clone()` / parentheses / borrows / derefs added by the generator around a term"""
    e = strip(e)
    while True:
        if e.get('k') == 'mcall' and e['m'] == 'clone' and not e['a']:
            e = strip(e['r']); continue
        if e.get('k') == 'addr':
            e = strip(e['e']); continue
        return e


def term_of(e):
    e = unclone(e)
    if e.get('k') == 'path' and e.get('res') == 'local':
        return ('local', e['id'], e['n'], e)
    return ('expr', None, None, e)


def expr_text(cr, e):
    """source text of a user expression (its span lies in the program text)"""
    e = strip(e)
    if 'snip' in e:
        return e['snip']
    if e.get('k') == 'path' and e.get('res') == 'local':
        return e['n']
    if e.get('k') == 'lit':
        return e['v']
    return None


def locals_in(e):
    """(name, binding id) of the local variables an expression refers to - without the ones the expression binds itself (`let`
    statements of a block, closure parameters, match arms, `if let`)"""
    inner = set()
    for x, _ in walk(e):
        k = x.get('k')
        pats = []
        if k == 'let' and 'p' in x:
            pats.append(x['p'])
        elif k == 'closure':
            pats += x.get('ps', [])
        elif k == 'match':
            pats += [a['p'] for a in x['arms']]
        for p in pats:
            for b in pat_bindings(p):
                inner.add(b['id'])
    out = []
    for x, _ in walk(e):
        if x.get('k') == 'path' and x.get('res') == 'local' and x['id'] not in inner:
            out.append((x['n'], x['id']))
    return out


class Recon:
    def __init__(self, pg, sc, rule):
        self.pg, self.sc, self.rule = pg, sc, rule
        self.cr = pg.cr
        self.p = pg.p

    def fail(self, msg, node=None):
        raise Unrecognised('%s: %s%s' % (self.pg.where(self.sc, self.rule), msg, (' @ ' + self.cr.loc(node)) if node else ''))

    def run(self):
        clo = self.rule['closure']
        # roles of generated locals, by data flow (never by the names the generator happens to use):
        #   id -> ('val', clause)    element of a lookup result (`__val`), also after `.tuple_of_borrowed()`
        #         ('jcols', clause)  joined key columns of the outer clause of a simple join
        #         ('cl1it', clause)  iterator over the outer clause's values   ('matching', clause) lookup result iterator
        #         ('row', clause)    reference to a lattice row  ('guard',) emptiness flag  ('aggop', ..) / ('aggargs', ..)
        self.roles = {}
        plans = self.rest(clo['b'], [], None)
        return plans

    def role(self, n):
        l = local_of(n) if n is not None else None
        return self.roles.get(l['id']) if l is not None else None

    def _siblings_push_row(self, stmts, i, lid):
        """do the statements following stmts[i] in this block (not descending into closures) append a tuple built from local `lid`
        to a relation row store?  (= `let X = (head args)` is the start of a head update)"""
        def visit(n):
            n_ = n
            if isinstance(n_, dict):
                if n_.get('k') == 'closure':
                    return False
                if n_.get('k') == 'mcall' and n_['m'] == 'push' and self_field(n_['r'], self.p.self_ids) in self.p.relations:
                    for x, _ in walk(n_['a'][0] if n_['a'] else {}):
                        if x.get('k') == 'path' and x.get('res') == 'local' and x['id'] == lid:
                            return True
                from facts import children as ch
                return any(visit(c) for c in ch(n_))
            return False
        for s in stmts[i + 1:]:
            if s['k'] == 'item':
                continue
            if visit(s):
                return True
        return False

    def _is_agg_let(self, stmts, i):
        s = stmts[i]
        if s['k'] != 'let' or 'i' not in s or s['p'].get('k') != 'bind' or not operand(self.pg, self.sc, s['i']):
            return False
        nxt = [x for x in stmts[i + 1:] if x['k'] != 'item']
        if not nxt or nxt[0]['k'] != 'let' or 'i' not in nxt[0]:
            return False
        g = strip(nxt[0]['i'])
        return g.get('k') == 'mcall' and g['m'] == 'index_get' and (local_of(g['r']) or {}).get('id') == s['p']['id']

    # the generator nests the rest of the rule inside the current construct; `items` is the prefix collected so far
    def rest(self, n, items, cur):
        n = strip(n)
        if n.get('k') == 'block':
            return self.block(n, 0, items, cur)
        return self.expr(n, items, cur)

    def block(self, blk, i, items, cur):
        stmts = list(blk['ss'])
        if 'e' in blk:
            stmts = stmts + [{'k': 'expr', 'e': blk['e']}]
        items = list(items)
        while i < len(stmts):
            s = stmts[i]
            if s['k'] == 'item':
                i += 1; continue
            if s['k'] == 'let':
                pat = s['p']
                init = s.get('i')
                name = pat.get('n') if pat.get('k') == 'bind' else None
                pid = pat.get('id') if pat.get('k') == 'bind' else None
                # emptiness guard: a bool built from is_empty() of index operands
                if pid is not None and init is not None and (self.cr.ty(pat) == 'bool') and any(
                        x.get('k') == 'mcall' and x['m'] == 'is_empty' and operand(self.pg, self.sc, x['r']) for x, _ in walk(init)):
                    self.roles[pid] = ('guard',)
                    items.append({'t': 'guard', 'node': init}); i += 1; continue
                # head update: `let X = (head args);` whose value is pushed by the following statements of this block
                if pid is not None and init is not None and strip(init).get('k') == 'tup' and self._siblings_push_row(stmts, i, pid):
                    return self.heads(stmts, i, items)
                if self._is_agg_let(stmts, i):
                    return self.agg(stmts, i, items, cur)
                # generated helper lets: re-borrow of a lookup element / lattice row dereference
                if pid is not None and init is not None:
                    i0 = strip(init)
                    while i0.get('k') == 'addr':
                        i0 = strip(i0['e'])
                    if i0.get('k') == 'mcall' and i0['m'] == 'tuple_of_borrowed' and self.role(i0['r']):
                        self.roles[pid] = self.role(i0['r']); i += 1; continue
                    # &_self.rel[*val](.read().unwrap())(.clone())
                    j0 = i0
                    while j0.get('k') == 'mcall' and j0['m'] in ('clone', 'unwrap', 'read'):
                        j0 = strip(j0['r'])
                    if j0.get('k') == 'index' and self_field(j0['e'], self.p.self_ids) in self.p.relations:
                        ix = strip(j0['i'])
                        while ix.get('k') == 'unary' and ix['op'] == 'deref':
                            ix = strip(ix['e'])
                        r_ = self.role(ix)
                        if r_ and r_[0] == 'val':
                            self.roles[pid] = ('row', r_[1]); i += 1; continue
                # column binding:  let x: &T = <val>.j  /  = &<row>.c  /  = <joined columns>.i
                col = self.column_binding(init, cur)
                if col is not None and name is not None:
                    col, cl_ = col
                    cl_['cols'][col] = ('bind', pat['id'], name)
                    i += 1; continue
                # a user `let pat = expr`
                items.append({'t': 'let', 'pat': pat, 'e': init, 'binds': [(b['n'], b['id']) for b in pat_bindings(pat)]})
                i += 1; continue
            e = strip(s['e'])
            rest_stmts = stmts[i + 1:]
            if rest_stmts and not all(x['k'] == 'item' for x in rest_stmts):
                self.fail('statements after a nesting construct', e)
            return self.expr(e, items, cur)
        # empty rest (a rule whose head block is empty cannot occur)
        pl = Plan(); pl.items = items
        return [pl]

    def column_binding(self, init, cur):
        """-> (column, clause) if `init` projects a column out of a generated local with a role"""
        if init is None:
            return None
        e = strip(init)
        while e.get('k') == 'addr':
            e = strip(e['e'])
        if e.get('k') != 'field' or not e['n'].isdigit():
            return None
        r = self.role(e['e'])
        if not r or len(r) < 2:
            return None
        kind, cl = r[0], r[1]
        j = int(e['n'])
        if kind == 'row':
            return (j, cl)
        if kind == 'jcols':
            return (cl['key_cols'][j], cl) if j < len(cl['key_cols']) else None
        if kind == 'val':
            comp = cl['val_cols']
            if comp == 'rowid':
                return None
            return (comp[j], cl) if j < len(comp) else None
        return None

    def new_clause(self, op_expr, key_expr, node, keyed=True):
        ops = operand(self.pg, self.sc, op_expr)
        if not ops or any(f.startswith('!mismatch') for f, v in ops):
            self.fail('clause reads an operand that is not a version of one index: %s' % (ops,), node)
        fields = {f for f, v in ops}
        if len(fields) != 1:
            self.fail('combined view over different indices', node)
        f = fields.pop()
        rel = self.p.index_fields[f][0]
        c = self.pg.cols[f]
        vers = sorted(v for _, v in ops)
        cl = {'t': 'clause', 'rel': rel, 'index': f, 'versions': vers, 'key_cols': c['key'], 'val_cols': c['val'] if isinstance(c['val'], list) else 'rowid',
              'cols': {}, 'node': node, 'lattice': bool(self.pg.lattice.get(rel))}
        if keyed:
            k = unclone(key_expr)
            if k.get('k') != 'tup' or len(k['es']) != len(c['key']):
                self.fail('lookup key is not a tuple matching the index columns', node)
            for col, e in zip(c['key'], k['es']):
                cl['cols'][col] = ('key',) + term_of(e)
        return cl

    def expr(self, e, items, cur):
        e = strip(e)
        k = e.get('k')
        if k == 'block':
            return self.block(e, 0, items, cur)
        if k == 'if':
            c = strip(e['c'])
            # if !any_rel_empty { .. }
            if c.get('k') == 'unary' and c['op'] == 'not' and self.role(c['e']) == ('guard',) and 'el' not in e:
                return self.rest(e['th'], items, cur)
            # run-time plan choice
            if c.get('k') == 'binary' and c['op'] == '<=' and all(strip(x).get('k') == 'mcall' and strip(x)['m'] == 'len_estimate' for x in (c['l'], c['r'])) and 'el' in e:
                a = self.rest(e['th'], items, cur)
                b = self.rest(e['el'], items, cur)
                for pl in a:
                    pl.branch += 'L'
                for pl in b:
                    pl.branch += 'R'
                return a + b
            if c.get('k') == 'let':
                pat, init = c['p'], strip(c['i'])
                # generated lookup: if let Some(__matching) = OP.index_get(&KEY) { __matching.for_each(|__val| ..) }
                binds = pat_bindings(pat)
                gen_lookup = (len(binds) == 1 and init.get('k') == 'mcall' and init['m'] in ('index_get', 'c_index_get')
                              and bool(operand(self.pg, self.sc, init['r'])) and 'el' not in e)
                if gen_lookup:
                    mid = binds[0]['id']
                    if cur is not None and cur.get('pending_join'):
                        # second clause of a simple join
                        cl2 = self.new_clause(init['r'], init['a'][0], init)
                        cur['pending_join'] = False
                        self.roles[mid] = ('matching', cl2)
                        return self.simple_join_inner(e['th'], items, cur, cl2)
                    cl = self.new_clause(init['r'], init['a'][0], init)
                    self.roles[mid] = ('matching', cl)
                    body = strip(e['th'])
                    fe = self.single_call(body, 'for_each')
                    if self.role(fe['r']) != ('matching', cl):
                        self.fail('lookup result is not iterated', fe)
                    clo = strip(fe['a'][0])
                    self._bind_closure_param(clo, ('val', cl))
                    return self.rest(clo['b'], items + [cl], cl)
                if 'el' in e:
                    self.fail('user if-let with else', e)
                items = items + [{'t': 'iflet', 'pat': pat, 'e': init, 'binds': [(b['n'], b['id']) for b in binds]}]
                return self.rest(e['th'], items, cur)
            if 'el' in e:
                self.fail('if/else that is not a plan choice', e)
            items = items + [{'t': 'if', 'e': c}]
            return self.rest(e['th'], items, cur)
        if k == 'mcall' and e['m'] == 'for_each':
            recv = strip(e['r'])
            clo = strip(e['a'][0])
            if recv.get('k') == 'mcall' and recv['m'] in ('iter_all', 'c_iter_all'):
                # first clause of a simple join
                cl1 = self.new_clause(recv['r'], None, recv, keyed=False)
                cl1['pending_join'] = True
                cl1['simple_join'] = 1
                ps = clo['ps']
                if len(ps) != 1 or ps[0].get('k') != 'tup' or len(ps[0]['ps']) != 2 or any(q.get('k') != 'bind' for q in ps[0]['ps']):
                    self.fail('simple join closure does not take (joined columns, values)', e)
                self.roles[ps[0]['ps'][0]['id']] = ('jcols', cl1)
                self.roles[ps[0]['ps'][1]['id']] = ('cl1it', cl1)
                return self.rest(clo['b'], items + [cl1], cl1)
            self.fail('for_each on an unexpected receiver', e)
        if k == 'match' and e.get('src') == 'for':
            scr = strip(e['e'])
            src = strip(scr['a'][0])
            inner = None
            for lp, _ in walk(e['arms'][0]['b']):
                if lp.get('k') == 'match' and lp.get('src') == 'for':
                    inner = lp; break
            arm = [a for a in inner['arms'] if pat_bindings(a['p']) or (a['p'].get('path') or {}).get('d', '').endswith('Some') or a['p'].get('k') in ('ts', 'struct')]
            some = [a for a in inner['arms'] if not ((a['p'].get('path') or {}).get('d', '') or '').endswith('None')]
            a = some[0]
            pat = a['p']
            # the loop variable pattern sits inside Some{0: pat}
            inner_pat = pat['fs'][0]['p'] if pat.get('k') == 'struct' and pat.get('fs') else (pat['ps'][0] if pat.get('ps') else pat)
            if cur is not None and cur.get('t') == 'aggctx':
                aggfn = src
                item = cur['item']
                item['pat'] = inner_pat
                item['binds'] = [(b['n'], b['id']) for b in pat_bindings(inner_pat)]
                item['aggfn'] = aggfn
                return self.rest(a['b'], items + [item], cur.get('outer'))
            item = {'t': 'for', 'pat': inner_pat, 'e': src, 'binds': [(b['n'], b['id']) for b in pat_bindings(inner_pat)]}
            return self.rest(a['b'], items + [item], cur)
        self.fail('unexpected construct of kind %s in a rule body' % k, e)

    def _bind_closure_param(self, clo, role):
        ps = clo.get('ps') or []
        if len(ps) == 1 and ps[0].get('k') == 'bind':
            self.roles[ps[0]['id']] = role

    def single_call(self, body, meth):
        b = strip(body)
        while b.get('k') == 'block':
            ss = [s for s in b['ss'] if s['k'] != 'item']
            if len(ss) == 1 and 'e' not in b:
                b = strip(ss[0]['e'])
            elif not ss and 'e' in b:
                b = strip(b['e'])
            else:
                self.fail('expected a single %s call' % meth, body)
        if b.get('k') != 'mcall' or b['m'] != meth:
            self.fail('expected %s call' % meth, body)
        return b

    def simple_join_inner(self, then, items, cl1, cl2):
        """inside `if let Some(__matching) = OP2.index_get(&KEY2)`:
           __cl1_tuple_indices.for_each(|cl1_val| { ASSIGNS1; CONDS1..; __matching.clone().for_each(|__val| { ASSIGNS2; CONDS2 -> rest }) })"""
        fe = self.single_call(then, 'for_each')
        if self.role(fe['r']) != ('cl1it', cl1):
            self.fail('the values of the outer clause of a simple join are not iterated', fe)
        clo = strip(fe['a'][0])
        self._bind_closure_param(clo, ('val', cl1))
        # cl1's value columns are bound in this closure, then cl1's conditions, then the inner for_each over cl2's matches
        return self.sj_body(clo['b'], items, cl1, cl2)

    def sj_body(self, n, items, cl1, cl2):
        n = strip(n)
        if n.get('k') != 'block':
            n = {'k': 'block', 'ss': [], 'e': n}
        stmts = list(n['ss']) + ([{'k': 'expr', 'e': n['e']}] if 'e' in n else [])
        items = list(items)
        for i, s in enumerate(stmts):
            if s['k'] == 'item':
                continue
            if s['k'] == 'let':
                pat = s['p']
                name = pat.get('n') if pat.get('k') == 'bind' else None
                i0 = strip(s.get('i') or {})
                while i0.get('k') == 'addr':
                    i0 = strip(i0['e'])
                if pat.get('k') == 'bind' and i0.get('k') == 'mcall' and i0['m'] == 'tuple_of_borrowed' and self.role(i0['r']):
                    self.roles[pat['id']] = self.role(i0['r']); continue
                j0 = i0
                while j0.get('k') == 'mcall' and j0['m'] in ('clone', 'unwrap', 'read'):
                    j0 = strip(j0['r'])
                if pat.get('k') == 'bind' and j0.get('k') == 'index' and self_field(j0['e'], self.p.self_ids) in self.p.relations:
                    ix = strip(j0['i'])
                    while ix.get('k') == 'unary' and ix['op'] == 'deref':
                        ix = strip(ix['e'])
                    r_ = self.role(ix)
                    if r_ and r_[0] == 'val':
                        self.roles[pat['id']] = ('row', r_[1]); continue
                col = self.column_binding(s.get('i'), cl1)
                if col is not None and name:
                    col[1]['cols'][col[0]] = ('bind', pat['id'], name); continue
                items.append({'t': 'let', 'pat': pat, 'e': s['i'], 'binds': [(b['n'], b['id']) for b in pat_bindings(pat)]})
                continue
            e = strip(s['e'])
            if e.get('k') == 'mcall' and e['m'] == 'for_each':
                r = strip(e['r'])
                if r.get('k') == 'mcall' and r['m'] == 'clone':
                    r = strip(r['r'])
                if self.role(r) == ('matching', cl2):
                    clo = strip(e['a'][0])
                    self._bind_closure_param(clo, ('val', cl2))
                    return self.rest(clo['b'], items + [cl2], cl2)
            if e.get('k') == 'if':
                c = strip(e['c'])
                if 'el' in e:
                    self.fail('if/else inside a simple join', e)
                if c.get('k') == 'let':
                    items.append({'t': 'iflet', 'pat': c['p'], 'e': strip(c['i']), 'binds': [(b['n'], b['id']) for b in pat_bindings(c['p'])]})
                else:
                    items.append({'t': 'if', 'e': c})
                return self.sj_body(e['th'], items, cl1, cl2)
            if e.get('k') == 'block':
                return self.sj_body(e, items, cl1, cl2)
            self.fail('unexpected statement inside a simple join', e)
        self.fail('simple join without inner loop', n)

    def agg(self, stmts, i, items, cur):
        # let __aggregated_rel = OP; let __matching = __aggregated_rel.index_get(&KEY); let __agg_args = ...map(|__val| { ASSIGNS; (bound..) });
        # for PAT in AGGFN(__agg_args) { rest }
        s0, s1, s2 = stmts[i], stmts[i + 1], stmts[i + 2]
        get = strip(s1['i'])
        if get.get('k') != 'mcall' or get['m'] != 'index_get':
            self.fail('aggregation without index_get', get)
        cl = self.new_clause(s0['i'], get['a'][0], get)
        # bound argument tuple
        mp = strip(s2['i'])
        clo = None
        if mp.get('k') == 'mcall' and mp['m'] in ('map', 'filter_map') and mp['a'] and strip(mp['a'][0]).get('k') == 'closure':
            clo = strip(mp['a'][0])
        else:
            for x, _ in walk(mp):
                if x.get('k') == 'closure':
                    clo = x; break
        if clo is None:
            self.fail('aggregation without argument closure', mp)
        # a row filter in front of the argument closure: `.filter(|__val| _self.REL[**__val](.read().unwrap())?.N.eq(&(EXPR)))`
        # selects the rows whose column N currently equals EXPR - an equality constraint on that column like a key (the value
        # column of a lattice is compared, never used as an index key)
        for x, _ in walk(mp):
            if x.get('k') == 'mcall' and x['m'] == 'filter' and x['a'] and strip(x['a'][0]).get('k') == 'closure':
                fclo = strip(x['a'][0])
                if fclo is clo:
                    continue
                test = strip(fclo['b'])
                while test.get('k') == 'block' and not test['ss'] and 'e' in test:
                    test = strip(test['e'])
                ok = False
                if test.get('k') == 'mcall' and test['m'] == 'eq' and len(test['a']) == 1:
                    recv = strip(test['r'])
                    if recv.get('k') == 'field':
                        base = strip(recv['e'])
                        while base.get('k') == 'mcall' and base['m'] in ('unwrap', 'read'):
                            base = strip(base['r'])
                        if base.get('k') == 'index' and self_field(base['e'], self.p.self_ids) == cl['rel']:
                            ix = strip(base['i'])
                            while ix.get('k') == 'unary' and ix['op'] == 'deref':
                                ix = strip(ix['e'])
                            pl = local_of(ix)
                            if pl is not None and fclo['ps'] and pat_bindings(fclo['ps'][0]) and pl['id'] == pat_bindings(fclo['ps'][0])[0]['id']:
                                arg = strip(test['a'][0])
                                while arg.get('k') == 'addr':
                                    arg = strip(arg['e'])
                                col = int(recv['n'])
                                if col in cl['cols']:
                                    self.fail('aggregation filters a column that is also a lookup key', x)
                                cl['cols'][col] = ('key',) + term_of(arg)
                                ok = True
                if not ok:
                    self.fail('aggregation with an unrecognised row filter', x)
        self._bind_closure_param(clo, ('val', cl))
        body = strip(clo['b'])
        bstm = body['ss'] if body.get('k') == 'block' else []
        for s in bstm:
            if s['k'] == 'let' and s['p'].get('k') == 'bind':
                i0 = strip(s.get('i') or {})
                while i0.get('k') == 'addr':
                    i0 = strip(i0['e'])
                if i0.get('k') == 'mcall' and i0['m'] == 'tuple_of_borrowed' and self.role(i0['r']):
                    self.roles[s['p']['id']] = self.role(i0['r']); continue
                j0 = i0
                while j0.get('k') == 'mcall' and j0['m'] in ('clone', 'unwrap', 'read'):
                    j0 = strip(j0['r'])
                if j0.get('k') == 'index' and self_field(j0['e'], self.p.self_ids) in self.p.relations:
                    ix = strip(j0['i'])
                    while ix.get('k') == 'unary' and ix['op'] == 'deref':
                        ix = strip(ix['e'])
                    r_ = self.role(ix)
                    if r_ and r_[0] == 'val':
                        self.roles[s['p']['id']] = ('row', r_[1]); continue
                col = self.column_binding(s.get('i'), cl)
                if col is not None:
                    cl['cols'][col[0]] = ('bind', s['p']['id'], s['p']['n'])
        tail = strip(body['e']) if body.get('k') == 'block' and 'e' in body else body
        # filter_map form: `if !A.eq(B) { return None; }` statements (two columns of the row must agree), value `Some((bound..))`
        eqs = set()
        for s in bstm:
            if s['k'] in ('expr', 'semi'):
                e = strip(s['e'])
                if e.get('k') == 'if' and 'el' not in e:
                    c = strip(e['c'])
                    if c.get('k') == 'unary' and c['op'] == 'not':
                        t_ = strip(c['e'])
                        if t_.get('k') == 'mcall' and t_['m'] == 'eq' and len(t_['a']) == 1:
                            a_, b_ = local_of(t_['r']), local_of(t_['a'][0])
                            rets = [x for x, _ in walk(e['th']) if x.get('k') == 'ret']
                            if a_ is not None and b_ is not None and rets:
                                eqs.add(frozenset((a_['id'], b_['id'])))
                                continue
                    self.fail('unrecognised statement in the aggregation argument closure', e)
        if tail.get('k') == 'call' and len(tail.get('a', [])) == 1 and (tail.get('f') or {}).get('dk') == 'Ctor' and str((tail.get('f') or {}).get('d', '')).endswith('Some'):
            tail = strip(tail['a'][0])
        bound = []
        if tail.get('k') == 'tup':
            for x in tail['es']:
                l = local_of(x)
                if l is None:
                    self.fail('aggregated argument is not a bound column', x)
                bound.append((l['n'], l['id']))
        item = {'t': 'agg', 'clause': cl, 'bound': bound, 'node': get, 'eqs': eqs}
        ctx = {'t': 'aggctx', 'item': item, 'outer': cur}
        rest = stmts[i + 3:]
        rest = [x for x in rest if x['k'] != 'item']
        if len(rest) != 1:
            self.fail('aggregation not followed by a single for loop', get)
        return self.expr(strip(rest[0]['e']), items, ctx)

    def heads(self, stmts, i, items):
        pl = Plan()
        pl.items = items
        j = i
        while j < len(stmts):
            s = stmts[j]
            if s['k'] == 'item':
                j += 1; continue
            if s['k'] == 'let' and s['p'].get('k') == 'bind' and 'i' in s and strip(s['i']).get('k') == 'tup' and self._siblings_push_row(stmts, j, s['p']['id']):
                row = strip(s['i'])
                # the relation: first push among the following statements up to the next head row
                rel = None
                k2 = j + 1
                def is_row_let(q, qi):
                    return q['k'] == 'let' and q['p'].get('k') == 'bind' and 'i' in q and strip(q['i']).get('k') == 'tup' and self._siblings_push_row(stmts, qi, q['p']['id'])
                while k2 < len(stmts) and not is_row_let(stmts[k2], k2):
                    for x, _ in walk(stmts[k2]):
                        if x.get('k') == 'mcall' and x['m'] == 'push':
                            f = self_field(x['r'], self.p.self_ids)
                            if f in self.p.relations and rel is None:
                                rel = f
                    k2 += 1
                if rel is None:
                    self.fail('head update without append site', row)
                pl.heads.append({'rel': rel, 'args': row['es'], 'node': row})
                j = k2
                continue
            self.fail('unexpected statement among head updates', s.get('e') or s.get('i'))
        return [pl]


# ----------------------------------------------------------------------------------------------------------- validation

IDENT_RE = re.compile(r'[A-Za-z_][A-Za-z0-9_]*')
KEYWORDS = {'Some', 'None', 'Ok', 'Err', 'mut', 'ref', 'true', 'false', 'Dual', 'Set', 'Product', 'OrdLattice', 'Box', 'Reverse'}


def pat_vars(txt):
    # `field: pattern` inside a struct pattern: the field name is not a binding (a shorthand field `P { t }` is)
    import re as _re
    txt = _re.sub(r'\b[a-z_][A-Za-z0-9_]*\s*:(?!:)', ' ', txt)
    return [m for m in IDENT_RE.findall(txt) if m not in KEYWORDS and not m[0].isupper() and m != '_']


def flatten_spec(rule, swap_first=False):
    """spec body as a flat item sequence (conditions attached to a clause follow it); optionally with the first two adjacent
    clauses swapped (the run-time reordering of a simple join)"""
    body = list(rule['body'])
    if swap_first:
        idx = [i for i, b in enumerate(body) if b['t'] == 'clause']
        if len(idx) < 2 or idx[1] != idx[0] + 1:
            return None
        body[idx[0]], body[idx[1]] = body[idx[1]], body[idx[0]]
    out = []
    for k, b in enumerate(body):
        if b['t'] == 'clause':
            out.append(('clause', b))
            for c in b['conds']:
                out.append((c['t'], c))
        else:
            out.append((b['t'], b))
    return out


class Mismatch(Exception):
    pass


def validate(pg, sc, plan, rule, cr, allow_swap=True):
    """raise Mismatch(text) unless `plan` evaluates the conjunctive query of spec `rule`. The clause order of the plan decides
    the alignment: the rule's order, or the rule's order with the first two adjacent clauses swapped (run-time reordering)."""
    plan_order = [it['rel'] for it in plan.items if it['t'] == 'clause']
    cands = []
    for swap in ((False, True) if allow_swap else (False,)):
        seq = flatten_spec(rule, swap)
        if seq is None:
            continue
        if [sp['rel'] for k, sp in seq if k == 'clause'] == plan_order:
            cands.append(seq)
    if not cands:
        raise Mismatch('the clauses are evaluated in the order %s, which is neither the rule\'s order nor the swap of its first two clauses' % plan_order)
    err = None
    for seq in cands:
        try:
            return _validate_seq(pg, sc, plan, rule, seq, cr)
        except Mismatch as e:
            err = err or e
    raise err


def _generated_binding_ids(pg):
    """ids of every binding introduced inside the generated evaluation code (let patterns, closure parameters, match arms)"""
    if getattr(pg, '_gen_ids', None) is not None:
        return pg._gen_ids
    ids = set()
    root = pg.p.run_main if getattr(pg.p, 'run_main', None) is not None else (pg.p.run_fn or {}).get('tree')
    if root is not None:
        for x, _ in walk(root):
            k = x.get('k')
            pats = []
            if k == 'let':
                pats.append(x['p'])
            elif k == 'closure':
                pats += x.get('ps', [])
            elif k == 'match':
                pats += [a['p'] for a in x['arms']]
            for pt in pats:
                for bb in pat_bindings(pt):
                    ids.add(bb['id'])
    pg._gen_ids = ids
    return ids


def _validate_seq(pg, sc, plan, rule, seq, cr):
    uf = UF()
    env = {}            # spec var -> binding id (representative via uf)
    bound_ids = set()   # all binding ids introduced by the rule so far
    items = [it for it in plan.items if it['t'] != 'guard']
    gi = 0

    def bind_var(v, bid):
        bound_ids.add(bid)
        if v in env:
            if uf.find(env[v]) != uf.find(bid):
                raise Mismatch('variable `%s` is bound again by a new binding instead of being tested for equality (shadowing: the equality constraint is lost)' % v)
        else:
            env[v] = bid

    def use_var(v, bid):
        if v not in env:
            raise Mismatch('variable `%s` is used before any clause binds it' % v)
        if uf.find(env[v]) != uf.find(bid):
            raise Mismatch('an occurrence of `%s` refers to a different binding than the one the rule binds' % v)

    gen_ids = _generated_binding_ids(pg)

    def check_refs(e):
        for n, bid in locals_in(e):
            if n in env:
                if uf.find(env[n]) != uf.find(bid):
                    raise Mismatch('expression `%s` refers to a different binding of `%s`' % (expr_text(cr, e), n))
            elif bid in gen_ids and bid not in bound_ids:
                # an identifier of the rule text that is no rule variable is a constant of the rule (static, const, captured local):
                # it must not resolve to a local variable that the generated code introduces
                raise Mismatch('the identifier `%s` of the rule text resolves to a local variable of the generated code (a captured local / '
                               'constant of that name is shadowed)' % n)

    def match_expr(e, txt, what, key=False):
        # lookup keys are wrapped into `.clone()` by the generator: compare modulo clones there; everywhere else literally
        if key:
            got = expr_text(cr, unclone(e))
            want = re.sub(r'(\.clone\(\))+$', '', norm(txt))
            gotn = re.sub(r'(\.clone\(\))+$', '', norm(got)) if got is not None else None
        else:
            got = expr_text(cr, strip(e))
            want, gotn = norm(txt), (norm(got) if got is not None else None)
        if gotn is None or gotn != want:
            raise Mismatch('%s is `%s`, the rule says `%s`' % (what, got, txt))
        check_refs(e)

    def take():
        nonlocal gi
        if gi >= len(items):
            raise Mismatch('generated rule body is shorter than the rule')
        it = items[gi]; gi += 1
        return it

    def peek():
        return items[gi] if gi < len(items) else None

    def clause(spec, gen, what):
        if gen['t'] != 'clause' or gen['rel'] != spec['rel']:
            raise Mismatch('%s reads `%s`, the rule says `%s`' % (what, gen.get('rel', gen['t']), spec['rel']))
        ar = len(spec['args'])
        pending = []
        # variables that a ?pattern argument of this clause binds: another argument that is (or uses) such a variable is compared
        # with it after the pattern has been matched
        pat_bound = set()
        for a in spec['args']:
            if 'pat' in a:
                pat_bound |= set(pat_vars(a['pat']))
        for col, a in enumerate(spec['args']):
            t = gen['cols'].get(col)
            if 'w' in a:
                if t is not None and t[0] == 'key':
                    raise Mismatch('%s: wildcard column %d is constrained by a lookup key' % (what, col))
                if t is not None:
                    bound_ids.add(t[1])
                continue
            if t is None:
                if 'v' in a or 'c' in a or 'e' in a or 'pat' in a:
                    raise Mismatch('%s: column %d (`%s`) is neither used as key nor bound' % (what, col, list(a.values())[0]))
                continue
            if 'v' in a and a['v'] not in env and t[0] == 'key':
                # an identifier that no item of the rule binds: a static / const / captured local, i.e. a constant key
                match_expr(t[4], a['v'], '%s column %d (free identifier)' % (what, col), key=True)
                for n_, bid_ in locals_in(t[4]):
                    if bid_ in bound_ids:
                        raise Mismatch('%s: column %d should be the outer identifier `%s` but refers to a rule variable' % (what, col, a['v']))
                continue
            if 'v' in a:
                v = a['v']
                if t[0] == 'bind':
                    if (v in env and env[v] is not None) or (v in pat_bound):
                        # repeated occurrence desugared into a fresh variable + equality condition: resolved below
                        pending.append(('eqvar', v, t[1], col))
                        bound_ids.add(t[1])
                    else:
                        bind_var(v, t[1])
                elif t[0] == 'key':
                    if t[1] != 'local':
                        raise Mismatch('%s: column %d should be the variable `%s` but is keyed by an expression' % (what, col, v))
                    use_var(v, t[2])
            elif 'c' in a or 'e' in a:
                txt = a.get('c') or a.get('e')
                if t[0] == 'key' and t[1] == 'expr':
                    match_expr(t[4], txt, '%s column %d' % (what, col), key=True)
                elif t[0] == 'key' and t[1] == 'local':
                    raise Mismatch('%s: column %d should be `%s` but is keyed by variable `%s`' % (what, col, txt, t[3]))
                else:
                    pending.append(('eqexpr', txt, t[1], col))
                    bound_ids.add(t[1])
            elif 'pat' in a:
                if t[0] != 'bind':
                    raise Mismatch('%s: pattern argument at column %d is not bound to a fresh variable' % (what, col))
                pending.append(('pat', a['pat'], t[1], col))
                bound_ids.add(t[1])
        # generated conditions that implement repeated variables / same-clause expressions / pattern arguments
        while pending:
            nxt = peek()
            if nxt is None:
                raise Mismatch('%s: the test for %s is missing' % (what, pending[0][:2]))
            if nxt['t'] == 'if':
                c = strip(nxt['e'])
                l = r = None
                if c.get('k') == 'mcall' and c['m'] == 'eq' and c['a']:
                    l, r = unclone(c['r']), unclone(c['a'][0])
                elif c.get('k') == 'binary' and c['op'] == '==':
                    l, r = unclone(c['l']), unclone(c['r'])
                hit = None
                if l is not None and l.get('k') == 'path' and l.get('res') == 'local':
                    for pnd in pending:
                        if pnd[2] == l['id']:
                            hit = pnd
                if hit is None:
                    raise Mismatch('%s: condition `%s` found where the equality test for column %d was expected' % (what, expr_text(cr, c), pending[0][3]))
                take()
                if hit[0] == 'eqvar':
                    rl = r if r.get('k') == 'path' else None
                    if rl is None or rl.get('res') != 'local':
                        raise Mismatch('%s: repeated variable `%s` is compared with an expression' % (what, hit[1]))
                    use_var(hit[1], rl['id'])
                    uf.union(hit[2], rl['id'])
                else:
                    match_expr(r, hit[1], '%s column %d (tested by equality)' % (what, hit[3]), key=True)
                pending.remove(hit)
            elif nxt['t'] == 'iflet':
                src = local_of(nxt['e'])
                hit = None
                for pnd in pending:
                    if pnd[0] == 'pat' and src is not None and pnd[2] == src['id']:
                        hit = pnd
                if hit is None:
                    raise Mismatch('%s: unexpected if-let while resolving pattern arguments' % what)
                take()
                want = pat_vars(hit[1])
                got = [n for n, _ in nxt['binds']]
                if want != got:
                    raise Mismatch('%s: pattern argument binds %s, the rule says %s' % (what, got, want))
                for n, bid in nxt['binds']:
                    bind_var(n, bid)
                pending.remove(hit)
            else:
                raise Mismatch('%s: the test for %s is missing' % (what, pending[0][:2]))

    n_cl = 0
    for kind, sp in seq:
        if kind == 'clause':
            n_cl += 1
            clause(sp, take(), 'clause %d `%s`' % (n_cl, sp['rel']))
        elif kind == 'if':
            it = take()
            if it['t'] != 'if':
                raise Mismatch('expected condition `if %s`, found %s' % (sp['e'], it['t']))
            match_expr(it['e'], sp['e'], 'condition')
        elif kind in ('let', 'iflet', 'for'):
            it = take()
            if it['t'] != kind:
                raise Mismatch('expected `%s %s`, found %s' % (kind, sp['p'], it['t']))
            match_expr(it['e'], sp['e'], '%s expression' % kind)
            want = pat_vars(sp['p'])
            got = [n for n, _ in it['binds']]
            if want != got:
                raise Mismatch('%s pattern binds %s, the rule says %s' % (kind, got, want))
            for n, bid in it['binds']:
                bind_var(n, bid)
        elif kind in ('agg', 'neg'):
            it = take()
            if it['t'] != 'agg':
                raise Mismatch('expected an aggregation over `%s`, found %s' % (sp['rel'], it['t']))
            cl = it['clause']
            if cl['versions'] != ['total']:
                raise Mismatch('aggregation over `%s` reads version %s' % (sp['rel'], cl['versions']))
            bound_names = sp.get('bound', []) if kind == 'agg' else []
            # the aggregated clause: bound args are fresh bindings local to the aggregation
            if cl['rel'] != sp['rel']:
                raise Mismatch('aggregation over `%s`, the rule says `%s`' % (cl['rel'], sp['rel']))
            for col, a in enumerate(sp['args']):
                t = cl['cols'].get(col)
                if 'w' in a:
                    if t is not None and t[0] == 'key':
                        raise Mismatch('aggregation: wildcard column %d is used as a key' % col)
                    continue
                if 'v' in a and a['v'] in bound_names:
                    if t is None or t[0] != 'bind':
                        raise Mismatch('aggregation: aggregated column %d (`%s`) is not bound from the matching rows' % (col, a['v']))
                    continue
                if t is None or t[0] != 'key':
                    raise Mismatch('aggregation: column %d (`%s`) is not part of the lookup key' % (col, list(a.values())[0]))
                if 'v' in a and a['v'] not in env:
                    match_expr(t[4], a['v'], 'aggregation column %d (free identifier)' % col, key=True)
                    for n_, bid_ in locals_in(t[4]):
                        if bid_ in bound_ids:
                            raise Mismatch('aggregation: column %d should be the outer identifier `%s` but refers to a rule variable' % (col, a['v']))
                elif 'v' in a:
                    if t[1] != 'local':
                        raise Mismatch('aggregation: column %d should be variable `%s`' % (col, a['v']))
                    use_var(a['v'], t[2])
                else:
                    match_expr(t[4], a.get('c') or a.get('e'), 'aggregation column %d' % col, key=True)
            got_bound = [n for n, _ in it['bound']]
            if got_bound != bound_names:
                raise Mismatch('aggregator receives the columns %s, the rule says %s (order matters)' % (got_bound, bound_names))
            # the bound tuple elements are the bindings of the corresponding columns
            for (n, bid), bn in zip(it['bound'], bound_names):
                cols = [c for c, a in enumerate(sp['args']) if a.get('v') == bn]
                if not cols or cl['cols'].get(cols[0], (None, None))[1] != bid:
                    raise Mismatch('aggregator argument `%s` is not the value of its column' % bn)
                # the aggregated variable repeated in further columns: those columns must be compared with the first
                for c2 in cols[1:]:
                    t2 = cl['cols'].get(c2)
                    if t2 is None or t2[0] != 'bind' or frozenset((bid, t2[1])) not in it.get('eqs', set()):
                        raise Mismatch('aggregation: `%s` occurs in columns %d and %d but the rows are not restricted to those where the two columns agree' % (bn, cols[0], c2))
            fn = strip(it['aggfn'])
            if kind == 'neg':
                c = callee(fn)
                if not (c and cname(c).endswith('aggregators::not')):
                    raise Mismatch('negation is not evaluated with ascent::aggregators::not')
                if it['binds']:
                    raise Mismatch('negation binds variables')
            else:
                f = strip(fn['f']) if fn.get('k') == 'call' else fn
                got = expr_text(cr, f)
                want = sp['agg']
                def unparen(x):
                    x = norm(x)
                    while x.startswith('(') and x.endswith(')'):
                        x = x[1:-1]
                    return x
                if got is None or unparen(got) != unparen(want):
                    # parameterised aggregators: `percentile(p)(args)` - compare the callee expression text
                    c = callee(fn)
                    last = cname(c).split('::')[-1] if c else ''
                    if last != want.split('(')[0].split('::')[-1]:
                        raise Mismatch('aggregator is `%s`, the rule says `%s`' % (got or last, want))
                wantp = pat_vars(sp['pat'])
                gotp = [n for n, _ in it['binds']]
                if wantp != gotp:
                    raise Mismatch('aggregation pattern binds %s, the rule says %s' % (gotp, wantp))
                for n, bid in it['binds']:
                    bind_var(n, bid)
        else:
            raise Mismatch('spec item %s not supported' % kind)
    if gi != len(items):
        extra = items[gi]
        raise Mismatch('generated rule body has an extra %s%s' % (extra['t'], (' `%s`' % expr_text(cr, extra['e'])) if extra.get('e') is not None and expr_text(cr, extra['e']) else ''))
    # distinct rule variables stay distinct
    reps = {}
    for v, bid in env.items():
        r = uf.find(bid)
        if r in reps and reps[r] != v:
            raise Mismatch('variables `%s` and `%s` are unified' % (reps[r], v))
        reps[r] = v
    # heads
    if len(plan.heads) != len(rule['heads']):
        raise Mismatch('%d head updates, the rule has %d head clauses' % (len(plan.heads), len(rule['heads'])))
    for h, sh in zip(plan.heads, rule['heads']):
        if h['rel'] != sh['rel']:
            raise Mismatch('head update of `%s`, the rule says `%s`' % (h['rel'], sh['rel']))
        if len(h['args']) != len(sh['argspec']):
            raise Mismatch('head `%s` has %d columns' % (h['rel'], len(h['args'])))
        for col, (e, a) in enumerate(zip(h['args'], sh['argspec'])):
            e0 = strip(e)
            if 'v' in a:
                c = callee(e0)
                inner = e0
                if c and cname(c).endswith('Convert::convert') and e0.get('a'):
                    inner = strip(e0['a'][0])
                l = local_of(inner)
                if l is None:
                    raise Mismatch('head `%s` column %d should be variable `%s`' % (h['rel'], col, a['v']))
                use_var(a['v'], l['id'])
            else:
                match_expr(e0, a.get('c') or a.get('e'), 'head `%s` column %d' % (h['rel'], col))
    return [(it['rel'], it['versions']) for it in items if it['t'] == 'clause']


def logical_key(r):
    """two spec rules with the same flat item sequence and heads are the same logical rule (e.g. a condition attached to a clause
    that cannot be reordered vs the same condition written as a stand-alone item)"""
    seq = flatten_spec(r, False)
    return repr([(k, sorted((kk, str(vv)) for kk, vv in sp.items() if kk != 'conds')) for k, sp in seq]) + repr([(h['rel'], h['args']) for h in r['heads']])


def rule_signature(rule):
    return (tuple(h['rel'] for h in rule['heads']), tuple(sorted(b['rel'] for b in rule['body'] if b['t'] == 'clause')),
            tuple(sorted(b['rel'] for b in rule['body'] if b['t'] in ('agg', 'neg'))))


def plan_signature(plan):
    return (tuple(h['rel'] for h in plan.heads), tuple(sorted(it['rel'] for it in plan.items if it['t'] == 'clause')),
            tuple(sorted(it['clause']['rel'] for it in plan.items if it['t'] == 'agg')))


def check_program(pg, spec, rep):
    """R1-R5 for one corpus program against its spec"""
    p, cr = pg.p, pg.cr
    if spec.get('has_sugar'):
        return 0
    rules = []
    mult = {}
    for r in spec['rules']:
        key = logical_key(r)
        if key in mult:
            mult[key] += 1      # the same rule written twice: one logical rule, evaluated once per copy
            continue
        mult[key] = 1
        rules.append(r)
    assigned = {i: [] for i in range(len(rules))}
    written_in = {}
    for sc in p.sccs:
        for rule in sc.rules:
            where = pg.where(sc, rule)
            try:
                plans = Recon(pg, sc, rule).run()
            except Unrecognised as e:
                raise Broken('corpus rule not reconstructed: %s' % e)
            rep.call_sites += 1
            matched = None
            errs = []
            sig = plan_signature(plans[0])
            cands = [i for i, r in enumerate(rules) if rule_signature(r) == sig]
            if not cands:
                rep.viol('R1', where, 'no-such-rule', 'generated rule variant (heads %s, body relations %s) corresponds to no rule of the program' % (sig[0], sig[1]))
                continue
            for exact_first in (True, False):
                for i in cands:
                    ok = True
                    vers = []
                    for k, pl in enumerate(plans):
                        try:
                            vers.append(validate(pg, sc, pl, rules[i], cr, allow_swap=not (exact_first and k == 0)))
                        except Mismatch as e:
                            ok = False
                            if not exact_first:
                                errs.append((i, pl.branch, str(e)))
                            break
                    if ok:
                        matched = (i, vers)
                        break
                if matched:
                    break
            rep.inst('R1', '%s: %d plan(s) reconstructed -> %s' % (where, len(plans), ('rule `%s`' % rules[matched[0]]['text']) if matched else 'MISMATCH'))
            if len(plans) > 1:
                rep.inst('R3', '%s: both run-time join orders evaluate the same rule: %s' % (where, matched is not None))
            if matched is None:
                # report the candidate that got furthest (fewest generic words); all candidates failed
                i, br, msg = errs[0]
                if len(cands) > 1:
                    msg += ' (and %d other rule(s) with the same relations do not match either)' % (len(cands) - 1)
                rule_kind = 'R3' if (len(plans) > 1 and br and br.endswith('R')) else 'R1'
                rep.viol(rule_kind, where, 'mismatch:' + norm(rules[i]['text'])[:60],
                         'the generated code does not evaluate the rule `%s`%s: %s' % (
                             rules[i]['text'], (' in the %s branch of the run-time join-order choice' % ('swapped' if br.endswith('R') else 'first')) if br else '', msg),
                         loc=cr.loc(rule['closure']))
                continue
            assigned[matched[0]].append((sc, rule, matched[1]))
            for h in rules[matched[0]]['heads']:
                written_in.setdefault(h['rel'], set()).add(sc.idx)
    # R2: variant cover
    for i, r in enumerate(rules):
        vs = assigned[i]
        where = '%s rule `%s`' % (p.path, r['text'])
        if not vs:
            rep.viol('R2', where, 'rule-missing', 'no generated variant evaluates this rule')
            continue
        sccs = {sc.idx for sc, _, _ in vs}
        if len(sccs) > mult[logical_key(r)]:
            rep.viol('R5', where, 'split-over-strata', 'the rule is evaluated in several strata %s' % sorted(sccs))
            continue
        vs = [v for v in vs if v[0] is vs[0][0]]
        sc = vs[0][0]
        dyn_rels = {pg.p.index_fields[f][0] for f in sc.dynamic if f in pg.p.index_fields}
        body_cl = [b for b in r['body'] if b['t'] == 'clause']
        dyn_pos = [k for k, b in enumerate(body_cl) if b['rel'] in dyn_rels]
        covered = set()
        for sc_, rule_, plan_vers in vs:
            for vers in plan_vers[:1]:
                # vers is in plan order; map back to spec order by relation multiset order (swap-insensitive: use sorted alignment)
                seq = list(vers)
                spec_order = [b['rel'] for b in body_cl]
                if [x[0] for x in seq] != spec_order:
                    # swapped first two
                    idx = [k for k in range(len(seq))]
                    if len(seq) >= 2 and [seq[1][0], seq[0][0]] + [x[0] for x in seq[2:]] == spec_order:
                        seq = [seq[1], seq[0]] + seq[2:]
                choices = []
                for k in dyn_pos:
                    v = seq[k][1]
                    choices.append(['T'] if v == ['total'] else ['D'] if v == ['delta'] else ['T', 'D'])
                for k, b in enumerate(body_cl):
                    if k not in dyn_pos and seq[k][1] != ['total']:
                        rep.viol('R2', where, 'static-clause-version', 'clause %d over the non-recursive relation `%s` reads version %s' % (k + 1, b['rel'], seq[k][1]))
                for combo in itertools.product(*choices):
                    covered.add(combo)
        n = len(dyn_pos)
        want = set(itertools.product('TD', repeat=n)) - {tuple('T' * n)} if n else {()}
        missing = want - covered
        rep.inst('R2', '%s: %d dynamic clause(s), %d variant(s) cover %d/%d delta-total assignments' % (where, n, len(vs), len(want & covered), len(want)))
        if missing:
            rep.viol('R2', where, 'uncovered:' + ','.join(''.join(m) for m in sorted(missing)),
                     'semi-naive cover incomplete: no variant evaluates the assignment(s) %s of the %d recursive clauses (T=total, D=delta): derivations '
                     'that need exactly these versions are never found' % (', '.join(''.join(m) for m in sorted(missing)), n))
        if n and tuple('T' * n) in covered:
            rep.inst('R2', '%s: all-total assignment evaluated as well (redundant work only)' % where)
    # R5: stratum order and looping
    first_scc = {i: min(sc.idx for sc, _, _ in vs) for i, vs in assigned.items() if vs}
    for i, r in enumerate(rules):
        if i not in first_scc:
            continue
        for b in r['body']:
            rel = b.get('rel')
            if rel is None:
                continue
            for j, r2 in enumerate(rules):
                if j in first_scc and any(h['rel'] == rel for h in r2['heads']):
                    ok = first_scc[j] <= first_scc[i] if b['t'] == 'clause' else first_scc[j] < first_scc[i]
                    rep.inst('R5', '%s: `%s` (stratum %d) %s `%s` written by stratum %d: %s' % (
                        p.path, r['text'], first_scc[i], 'reads' if b['t'] == 'clause' else 'aggregates', rel, first_scc[j], ok))
                    if not ok:
                        rep.viol('R5', '%s rule `%s`' % (p.path, r['text']), 'order:' + rel,
                                 'relation `%s` is %s in stratum %d but still written in stratum %d' % (
                                     rel, 'read' if b['t'] == 'clause' else 'aggregated', first_scc[i], first_scc[j]))
    for sc in p.sccs:
        heads = set()
        reads = set()
        for i, vs in assigned.items():
            for sc_, _, _ in vs:
                if sc_ is sc:
                    heads |= {h['rel'] for h in rules[i]['heads']}
                    reads |= {b['rel'] for b in rules[i]['body'] if b['t'] == 'clause'}
        must_loop = bool(heads & reads)
        rep.inst('R5', '%s: stratum %d loops=%s, reads what it writes=%s' % (p.path, sc.idx, sc.looping, must_loop))
        if must_loop and not sc.looping:
            rep.viol('R5', pg.where(sc), 'no-loop', 'a stratum whose rules read a relation they write is evaluated only once')
    return len(rules)
