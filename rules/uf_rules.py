"""C18 - structural clauses of the public union-find structures (TrRelUnionFind, EqRel's find layer, uf::UnionFind).

What is decided is the *shape* every correct answer depends on, not the answers:
  U1  a class id read from the lazily maintained element table (`elem_ids`, `items`) is stale after a collapse; it must go through
      the find function (get_dominant_id* / Elems::find, or a method of self that does so first) before it indexes a class table,
      keys a connection table or is handed out.
  U2  the forward query family reads the forward class-edge table, the reverse family the reverse one: the field sets of (f, rev_f)
      and (get_set_connections, get_reverse_set_connections) are mirror images.
  U3  a collapse is complete: where a class's member set is taken out of `sets[S]`, the members are merged into `sets[F]` (F != S)
      and the forwarding entry `set_subsumptions.insert(S, F)` is written with the same S and F.
  U4  uf: the linking step works on roots - receiver and argument of Elem::union_by_rank / Elem::union outside `Elem` are the
      `.elem` of two `Elems::find` results taken for two different ids.
  U5  uf: `Elems::find` hands out (id, elem) only under the root test of that very elem (`id == elem.parent`), elem being the
      element fetched for id; parent pointers are only ever redirected to an id read from a parent pointer (an ancestor).
"""
from facts import walk, callee
from tree import strip, cname, pat_bindings
from lib_rules import chain_root
from core import Broken

CMP = ('==', '!=', '<', '>', '<=', '>=')
ADAPT_CLOSURE = ('map', 'and_then', 'is_some_and', 'is_none_or', 'flat_map', 'filter', 'filter_map', 'for_each', 'any', 'all',
                 'map_or', 'map_or_else', 'find', 'find_map', 'inspect', 'then', 'fold')
KEYED = ('get', 'get_mut', 'get_unchecked', 'get_unchecked_mut', 'contains_key', 'contains', 'remove', 'entry', 'insert')
ASSERT_MACROS = ('debug_assert', 'debug_assert_eq', 'debug_assert_ne', 'assert', 'assert_eq', 'assert_ne')


def _id_like(s):
    if not s:
        return False
    s = s.replace('&mut ', '').replace('&', '').replace("'_ ", '').strip()
    return s == 'usize' or s.endswith('elems::Id') or (s.startswith('std::cell::Cell<') and s.rstrip('>').endswith('elems::Id'))


def _self_id(b):
    if b['params'] and b['params'][0].get('k') == 'bind' and b['params'][0].get('n') == 'self':
        return b['params'][0]['id']
    return None


def _self_field(n, self_id):
    """name of the field of self a place expression denotes exactly (through borrows / derefs), else None"""
    n = strip(n)
    while n.get('k') == 'addr' or (n.get('k') == 'unary' and n.get('op') == 'deref'):
        n = strip(n['e'])
    if n.get('k') == 'field':
        base = strip(n['e'])
        while base.get('k') == 'addr' or (base.get('k') == 'unary' and base.get('op') == 'deref'):
            base = strip(base['e'])
        if base.get('k') == 'path' and base.get('res') == 'local' and base.get('id') == self_id:
            return n['n']
    return None


def _contains(n, pred):
    for x, _ in walk(n):
        if pred(x):
            return True
    return False


def _in_assert(cr, n):
    return cr.from_exp(n) and (cr.exp_macro(n) or '').split('!')[0] in ASSERT_MACROS


# ------------------------------------------------------------------ U1

def _canon_params(cr, bodies, is_find):
    """methods of the impl whose id-like parameter is passed to the find function before any keyed use: path -> set(param index)"""
    out, rawkey = {}, {}
    for path, b in bodies.items():
        for i, p in enumerate(b['params']):
            if p.get('k') != 'bind' or not _id_like(cr.ty(p)) or p.get('n') == 'self':
                continue
            pid = p['id']
            canon = raw_key = False
            shadow = set()
            for n, parents in walk(b['tree']):
                c = callee(n)
                if c and is_find(c) and n.get('a'):
                    for a in n['a']:
                        r = chain_root(a)
                        if r is not None and r['id'] == pid:
                            canon = True
                            # `let id = find(id)` : later uses of the new binding are canonical
                if n.get('k') == 'index':
                    r = chain_root(n['i'])
                    if r is not None and r['id'] == pid:
                        raw_key = True
                if n.get('k') == 'mcall' and n['m'] in KEYED and n['a']:
                    r = chain_root(n['a'][0])
                    if r is not None and r['id'] == pid:
                        raw_key = True
            if canon and not raw_key:
                out.setdefault(path, set()).add(i)
            elif raw_key and not canon:
                rawkey.setdefault(path, set()).add(i)
    return out, rawkey


def check_U1(ctx, rep, impl_prefix, raw_field, find_names, find_impl=None):
    cr = ctx.lib('ascent_byods_rels')
    bodies = {p: b for p, b in cr.bodies.items() if p.startswith(impl_prefix)}
    if not bodies:
        raise Broken('U1: no bodies under %s' % impl_prefix)

    def is_find(c):
        nm = cname(c)
        last = nm.split('::')[-1]
        if not any(last == f or (f.endswith('*') and last.startswith(f[:-1])) for f in find_names):
            return False
        return find_impl is None or nm.startswith(find_impl) or nm.startswith(impl_prefix)

    canon_methods, rawkey_methods = _canon_params(cr, bodies, is_find)
    n_reads = 0
    for path, b in sorted(bodies.items()):
        self_id = _self_id(b)
        if self_id is None:
            continue

        # `let elems = &self.elem_ids;` : reads through the alias are reads of the table
        aliases = {x['p']['id'] for x, _ in walk(b['tree'])
                   if x.get('k') == 'let' and 'i' in x and x['p'].get('k') == 'bind' and _self_field(x['i'], self_id) == raw_field}

        def is_table(e):
            if _self_field(e, self_id) == raw_field:
                return True
            e = strip(e)
            while e.get('k') == 'addr' or (e.get('k') == 'unary' and e.get('op') == 'deref'):
                e = strip(e['e'])
            return e.get('k') == 'path' and e.get('res') == 'local' and e.get('id') in aliases

        def is_raw_read(n):
            if n.get('k') == 'mcall' and n['m'] in ('get', 'iter', 'values', 'get_key_value', 'par_iter') and is_table(n['r']):
                return True
            if n.get('k') == 'index' and is_table(n['e']):
                return True
            return False

        def is_canon_call(n):
            c = callee(n)
            if not c or n.get('k') not in ('call', 'mcall'):
                return False
            if is_find(c):
                return True
            return cname(c) in canon_methods

        def canon_arg_positions(n):
            """argument nodes of a canonicalising call that are canonicalised"""
            c = callee(n)
            if is_find(c):
                return list(n['a'])
            idxs = canon_methods.get(cname(c), set())
            # params include self at 0 for methods; mcall args exclude the receiver
            off = 1 if n.get('k') == 'mcall' else 0
            return [a for j, a in enumerate(n['a']) if (j + off) in idxs]

        if not _contains(b['tree'], is_raw_read):
            continue
        tainted = {}

        def derives_raw(e):
            return _contains(e, lambda x: is_raw_read(x) or (x.get('k') == 'path' and x.get('res') == 'local' and x.get('id') in tainted))

        def has_canon(e):
            return _contains(e, is_canon_call)

        changed = True
        while changed:
            changed = False
            for n, parents in walk(b['tree']):
                newb = []
                k = n.get('k')
                if k == 'let' and 'i' in n and 'p' in n and derives_raw(n['i']) and not has_canon(n['i']):
                    newb = pat_bindings(n['p'])
                elif k == 'match' and derives_raw(n['e']) and not has_canon(n['e']):
                    for a in n['arms']:
                        newb += pat_bindings(a['p'])
                elif k == 'mcall' and n['m'] in ADAPT_CLOSURE and derives_raw(n['r']) and not has_canon(n['r']):
                    for a in n['a']:
                        a = strip(a)
                        if a.get('k') == 'closure':
                            for pp_ in a['ps']:
                                newb += pat_bindings(pp_)
                for bb in newb:
                    if bb['id'] not in tainted:
                        tainted[bb['id']] = bb
                        changed = True

        def excused(node, parents):
            """inside the canonicalised arguments of a find call, or an operand of a comparison, or in an assertion"""
            chain = list(parents) + [node]
            for i, a in enumerate(parents):
                if a.get('k') in ('call', 'mcall') and is_canon_call(a):
                    nxt = chain[i + 1]
                    if any(nxt is x for x in canon_arg_positions(a)):
                        return True
                if a.get('k') == 'binary' and a.get('op') in CMP:
                    return True
            return _in_assert(cr, node)

        def value_position(node, parents):
            """does the value of `node` become (part of) the value of the function or of a closure / a `return` operand?"""
            chain = list(parents) + [node]
            for i in range(len(parents) - 1, -1, -1):
                a, ch = parents[i], chain[i + 1]
                k = a.get('k')
                if k == 'ret':
                    return True
                if k == 'closure':
                    return True
                if k == 'block':
                    if a.get('e') is not ch:
                        return False
                    continue
                if k in ('let', 'semi', 'assign', 'assignop', 'loop'):
                    return False
                if k == 'expr':
                    continue
                if k == 'if':
                    if a['c'] is ch:
                        return False
                    continue
                if k == 'match':
                    if a['e'] is ch:
                        return False
                    continue
                if k == 'mcall':
                    if a['r'] is ch:
                        if a['m'] in ADAPT_CLOSURE and any(strip(x).get('k') == 'closure' for x in a['a']):
                            return False        # the value is the closure's; its tail is looked at on its own
                        if a['m'] in ('len', 'is_empty', 'is_some', 'is_none', 'count', 'set', 'replace'):
                            return False
                        continue
                    return False                # an argument of some other call: not handed out as an id by this function
                if k == 'call':
                    nm = cname(callee(a) or {})
                    if nm.endswith(('::Some', '::Ok')) or a['f'].get('dk') in ('Ctor',):
                        continue
                    return False
                if k in ('tup', 'struct', 'unary', 'addr', 'cast', 'field', 'use', 'type'):
                    continue
                if k == 'binary':
                    return False
                return False
            return True

        rep.functions.add(path)
        for n, parents in walk(b['tree']):
            if is_raw_read(n):
                n_reads += 1
                bad = value_position(n, parents) and not excused(n, parents)
                rep.inst('U1', '%s: read of `%s` (%s) handed out unresolved: %s; derived bindings: %s' % (
                    path, raw_field, n.get('snip', '')[:50], bad, sorted({t['n'] for t in tainted.values() if _id_like(cr.ty(t))})))
                if bad:
                    rep.viol('U1', path, 'unresolved-id-handed-out:' + raw_field,
                             'the class id stored in `%s` is returned without going through the find function: after two classes are united the '
                             'entries of the other members still name the emptied class' % raw_field, loc=cr.loc(n))
            if n.get('k') == 'path' and n.get('res') == 'local' and n.get('id') in tainted and _id_like(cr.ty(tainted[n['id']])):
                if excused(n, parents):
                    continue
                # b1: key / index use
                chain = list(parents) + [n]
                bad = None
                for i, a in enumerate(parents):
                    ch = chain[i + 1]
                    if a.get('k') == 'index' and a['i'] is ch:
                        bad = 'index'
                    if a.get('k') == 'mcall' and a['m'] in KEYED and a['a'] and a['a'][0] is ch and not is_table(a['r']):
                        bad = a['m']
                    if a.get('k') in ('call', 'mcall') and cname(callee(a) or {}) in rawkey_methods:
                        off = 1 if a.get('k') == 'mcall' else 0
                        for j, arg in enumerate(a['a']):
                            if arg is ch and (j + off) in rawkey_methods[cname(callee(a))]:
                                bad = 'key inside ' + cname(callee(a)).split('::')[-1]
                if bad is None and value_position(n, parents):
                    bad = 'returned'
                if bad:
                    rep.viol('U1', path, 'unresolved-id-use:%s:%s' % (n['n'], bad),
                             'the id `%s` comes straight from `%s` (no find in between) and is used as %s: it may name a class that has been '
                             'merged into another one' % (n['n'], raw_field, 'the result' if bad == 'returned' else 'a key (' + bad.replace('key inside ', 'by ') + ')'),
                             loc=cr.loc(n))
    return n_reads


# ------------------------------------------------------------------ U2

def _fields_read(cr, bodies, path, seen=None):
    b = bodies.get(path)
    if b is None:
        return set()
    seen = seen if seen is not None else set()
    if path in seen:
        return set()
    seen.add(path)
    self_id = _self_id(b)
    out = set()
    for n, _ in walk(b['tree']):
        if n.get('k') == 'field':
            f = _self_field(n, self_id)
            if f:
                out.add(f)
        c = callee(n)
        if c and cname(c) in bodies and cname(c) != path:
            out |= _fields_read(cr, bodies, cname(c), seen)
    return out


def check_U2(ctx, rep, impl_prefix, fwd, rev, pairs):
    cr = ctx.lib('ascent_byods_rels')
    bodies = {p: b for p, b in cr.bodies.items() if p.startswith(impl_prefix)}
    mirror = {fwd: rev, rev: fwd}
    n = 0
    for f, g in pairs:
        pf, pg = impl_prefix + f, impl_prefix + g
        if pf not in bodies or pg not in bodies:
            raise Broken('U2: sibling pair %s / %s not found' % (f, g))
        ff, fg = _fields_read(cr, bodies, pf), _fields_read(cr, bodies, pg)
        n += 1
        rep.functions.add(pf); rep.functions.add(pg)
        ff, fg = ff & {fwd, rev}, fg & {fwd, rev}        # only the two direction tables are compared
        ok = {mirror.get(x, x) for x in ff} == fg and bool(ff)
        rep.inst('U2', '%s reads %s / %s reads %s: mirror images = %s' % (f, sorted(ff), g, sorted(fg), ok))
        if not ok:
            # name the side that does not touch its own table
            which = g if rev not in fg or fwd in fg and fwd not in {mirror.get(x, x) for x in ff} else f
            rep.viol('U2', impl_prefix + which, 'direction-mix:%s/%s' % (f, g),
                     '%s and %s are mirror images over `%s` / `%s`, but they read %s and %s: one of them answers from the table of the '
                     'other direction' % (f, g, fwd, rev, sorted(ff), sorted(fg)))
    return n


# ------------------------------------------------------------------ U3

def check_U3(ctx, rep, impl_prefixes):
    cr = ctx.lib('ascent_byods_rels')
    n_takes = 0
    for path, b in sorted(cr.bodies.items()):
        if not any(path.startswith(p) for p in impl_prefixes):
            continue
        self_id = _self_id(b)
        if self_id is None:
            continue
        inits = _let_inits(b)

        def sets_index(e):
            """binding id of S in a place `self.sets[S]` (through &mut / derefs)"""
            e = strip(e)
            hops = 0
            while True:
                while e.get('k') == 'addr' or (e.get('k') == 'unary' and e.get('op') == 'deref'):
                    e = strip(e['e'])
                if e.get('k') == 'path' and e.get('res') == 'local' and e.get('id') in inits and hops < 4:
                    e = strip(inits[e['id']]); hops += 1        # `let dest = &mut self.sets[from];`
                    continue
                break
            if e.get('k') == 'index' and _self_field(e['e'], self_id) == 'sets':
                r = chain_root(e['i'])
                return r['id'] if r is not None else -1
            return None
        takes, merges, fwds = [], [], []
        for n, parents in walk(b['tree']):
            c = callee(n)
            nm = cname(c) if c else ''
            if n.get('k') == 'call' and nm.endswith('mem::take') and n['a']:
                s = sets_index(n['a'][0])
                if s is not None:
                    takes.append((s, n))
            if n.get('k') == 'call' and nm.endswith('::merge_sets') and len(n['a']) == 2:
                d = sets_index(n['a'][0])
                if d is not None:
                    merges.append(d)
            if n.get('k') == 'mcall' and n['m'] == 'extend':
                d = sets_index(n['r'])
                if d is not None:
                    merges.append(d)
            if n.get('k') == 'mcall' and n['m'] == 'insert' and _self_field(n['r'], self_id) == 'set_subsumptions' and len(n['a']) == 2:
                k_, v_ = chain_root(n['a'][0]), chain_root(n['a'][1])
                fwds.append((k_['id'] if k_ is not None else -1, v_['id'] if v_ is not None else -2))
        for s, n in takes:
            n_takes += 1
            rep.functions.add(path)
            dests = [d for d in merges if d != s]
            ok_merge = bool(dests)
            ok_fwd = any(k_ == s and v_ in dests for k_, v_ in fwds)
            rep.inst('U3', '%s: class set taken out of sets[..]: members merged into another class = %s, forwarding entry (taken -> destination) = %s'
                     % (path, ok_merge, ok_fwd))
            if not ok_merge:
                rep.viol('U3', path, 'collapse-loses-members', 'the member set taken out of `sets[S]` is not merged into another class of `sets`',
                         loc=cr.loc(n))
            elif not ok_fwd:
                rev = any(v_ == s and k_ in dests for k_, v_ in fwds)
                rep.viol('U3', path, 'collapse-forwarding-' + ('reversed' if rev else 'missing'),
                         'the class whose members were moved gets no forwarding entry `set_subsumptions.insert(S, F)` to the class that received '
                         'them%s: ids of its members held in `elem_ids` resolve to the emptied class' % (' (the entry is written the other way round)' if rev else ''),
                         loc=cr.loc(n))
    return n_takes


# ------------------------------------------------------------------ U4 / U5

def _let_inits(b):
    out = {}
    for n, _ in walk(b['tree']):
        if n.get('k') == 'let' and 'i' in n and n['p'].get('k') == 'bind':
            out[n['p']['id']] = n['i']
    return out


def _unwrap_unsafe(e):
    e = strip(e)
    while e.get('k') == 'block' and not e['ss'] and 'e' in e:
        e = strip(e['e'])
    return e


def check_U4(ctx, rep):
    cr = ctx.lib('ascent_byods_rels')
    n = 0
    for path, b in sorted(cr.bodies.items()):
        if not path.startswith('uf::') or path.startswith('uf::elems::Elem::<T>::'):
            continue
        inits = _let_inits(b)
        for x, parents in walk(b['tree']):
            c = callee(x)
            if x.get('k') != 'mcall' or not c or not cname(c).startswith('uf::elems::Elem::<T>::union'):
                continue
            n += 1
            rep.functions.add(path)
            srcs = []
            for opnd in (x['r'], x['a'][0]):
                o = strip(opnd)
                while o.get('k') == 'addr' or (o.get('k') == 'unary' and o.get('op') == 'deref'):
                    o = strip(o['e'])
                src = None
                hops = 0
                while o.get('k') == 'path' and o.get('res') == 'local' and o.get('id') in inits and hops < 4:
                    o = _unwrap_unsafe(inits[o['id']]); hops += 1       # `let xr = x_result.elem;`
                    while o.get('k') == 'addr' or (o.get('k') == 'unary' and o.get('op') == 'deref'):
                        o = strip(o['e'])
                if o.get('k') == 'field' and o['n'] == 'elem':
                    r = chain_root(o)
                    init = _unwrap_unsafe(inits.get(r['id'])) if r is not None and r['id'] in inits else None
                    ic = callee(init) if init else None
                    if ic and cname(ic) == 'uf::elems::Elems::<T>::find' and init.get('a'):
                        ar = chain_root(init['a'][0])
                        src = ar['id'] if ar is not None else -1
                srcs.append(src)
            ok = srcs[0] is not None and srcs[1] is not None and srcs[0] != srcs[1]
            rep.inst('U4', '%s: `%s` links the elements of two find results for two different ids: %s' % (path, x.get('snip', '')[:60], ok))
            if not ok:
                what = 'same-id-twice' if srcs[0] is not None and srcs[0] == srcs[1] else 'non-root-operand'
                rep.viol('U4', path, 'link-' + what,
                         'the linking step must be applied to the roots found for the two ids given (`find(x).elem`, `find(y).elem`); here %s'
                         % ('both operands are the root of the same id: the union never happens' if what == 'same-id-twice' else
                            'an operand is not the `.elem` of a find result: linking a non-root cuts its class apart'), loc=cr.loc(x))
    if n < 1:
        raise Broken('U4: no call of Elem::union_by_rank / Elem::union outside Elem found in uf')
    return n


def check_U5(ctx, rep):
    cr = ctx.lib('ascent_byods_rels')
    path = 'uf::elems::Elems::<T>::find'
    b = cr.bodies.get(path)
    if b is None:
        raise Broken('U5: %s not found' % path)
    rep.functions.add(path)
    inits = _let_inits(b)
    params = {p['id'] for p in b['params'] if p.get('k') == 'bind'}

    def parent_read_of(e):
        """root local id of E in `E.parent.get()`"""
        e = _unwrap_unsafe(e) if e else None
        if e and e.get('k') == 'mcall' and e['m'] == 'get':
            r = strip(e['r'])
            if r.get('k') == 'field' and r['n'] == 'parent':
                rr = chain_root(r)
                return rr['id'] if rr is not None else None
        return None

    def fetched_for(elem_id):
        """id local X when the elem local was bound from get_unchecked(X) / get(X) / index"""
        e = _unwrap_unsafe(inits.get(elem_id)) if elem_id in inits else None
        if e and e.get('k') == 'mcall' and e['m'] in ('get_unchecked', 'get') and e['a']:
            r = chain_root(e['a'][0])
            return r['id'] if r is not None else None
        return None
    n = 0
    for x, parents in walk(b['tree']):
        if x.get('k') == 'struct' and len(x.get('fs', [])) == 2 and {f['n'] for f in x['fs']} == {'id', 'elem'}:
            n += 1
            fid = chain_root([f for f in x['fs'] if f['n'] == 'id'][0]['e'])
            fel_e = _unwrap_unsafe([f for f in x['fs'] if f['n'] == 'elem'][0]['e'])
            fel = chain_root(fel_e)
            inline_fetch = fel_e.get('k') == 'mcall' and fel_e['m'] in ('get_unchecked', 'get')
            ok = False
            why = 'no enclosing root test'
            if fid is not None and fel is not None:
                if inline_fetch:
                    why = 'the element is fetched in place: no root test of it can precede'
                elif fetched_for(fel['id']) != fid['id']:
                    why = 'the element was not fetched for the id it is paired with'
                else:
                    chain = list(parents) + [x]
                    for i, a in enumerate(parents):
                        if a.get('k') == 'if' and a.get('th') is chain[i + 1] or (a.get('k') == 'if' and _contains(a['th'], lambda y: y is x)):
                            c_ = strip(a['c'])
                            if c_.get('k') == 'path' and c_.get('res') == 'local' and c_.get('id') in inits:
                                c_ = strip(inits[c_['id']])         # `let is_root = id == parent_id; if is_root { .. }`
                            if c_.get('k') == 'binary' and c_.get('op') == '==':
                                l, r = chain_root(c_['l']), chain_root(c_['r'])
                                if l is None or r is None:
                                    continue
                                for me, other in ((l, r), (r, l)):
                                    if me['id'] == fid['id'] and parent_read_of(inits.get(other['id'])) == fel['id']:
                                        ok = True
            rep.inst('U5', '%s: result (%s, %s) handed out under the root test of that element: %s' % (
                path, fid['n'] if fid is not None else '?', fel['n'] if fel is not None else '?', ok))
            if not ok:
                rep.viol('U5', path, 'non-root-result:%s' % (fid['n'] if fid is not None else '?'),
                         'find hands out an (id, elem) pair that is not guarded by `id == elem.parent` for the element fetched for that id (%s): '
                         'callers link and compare what they take for roots' % why, loc=cr.loc(x))
        if x.get('k') == 'mcall' and x['m'] == 'set' and x['a']:
            r = strip(x['r'])
            if r.get('k') == 'field' and r['n'] == 'parent':
                n += 1
                v = chain_root(x['a'][0])
                ok = v is not None and v['id'] not in params and parent_read_of(inits.get(v['id'])) is not None
                rep.inst('U5', '%s: parent pointer redirected to an id read from a parent pointer: %s' % (path, ok))
                if not ok:
                    rep.viol('U5', path, 'parent-redirect', 'a parent pointer is set to a value that was not read from a parent pointer (not an ancestor)',
                             loc=cr.loc(x))
    # the remaining exits must be further find steps
    if n < 3:
        raise Broken('U5: expected two guarded results and the path-halving write in Elems::find, found %d sites' % n)
    return n


# ------------------------------------------------------------------ U6 / U7

def _entry_insert(n, self_id):
    """(table field, key root id, value root id) of `self.<table>.entry(K).or_default().insert(V)`"""
    if n.get('k') != 'mcall' or n['m'] != 'insert' or len(n['a']) != 1:
        return None
    r = strip(n['r'])
    if r.get('k') == 'mcall' and r['m'] in ('or_default', 'or_insert_with', 'or_insert'):
        r = strip(r['r'])
    else:
        return None
    if r.get('k') != 'mcall' or r['m'] != 'entry' or not r['a']:
        return None
    f = _self_field(r['r'], self_id)
    k_, v_ = chain_root(r['a'][0]), chain_root(n['a'][0])
    if f is None or k_ is None or v_ is None:
        return None
    return f, k_['id'], v_['id']


def check_U6(ctx, rep, impl_prefix, fwd, rev):
    """a class-level edge whose insertion into the forward table is *tested* (`if !fwd.entry(a).or_default().insert(b) { return .. }` -
    the "was it new" idiom) is mirrored in the same function by `rev.entry(b).or_default().insert(a)` with the same a and b"""
    cr = ctx.lib('ascent_byods_rels')
    n = 0
    for path, b in sorted(cr.bodies.items()):
        if not path.startswith(impl_prefix):
            continue
        self_id = _self_id(b)
        if self_id is None:
            continue
        ins = []
        for x, parents in walk(b['tree']):
            ei = _entry_insert(x, self_id)
            if ei:
                chain = list(parents) + [x]
                tested = any(a.get('k') == 'if' and _contains(a['c'], lambda y: y is x) for a in parents)
                ins.append((ei, tested, x))
        for (f, k_, v_), tested, x in ins:
            if f != fwd or not tested:
                continue
            n += 1
            rep.functions.add(path)
            ok = any(f2 == rev and k2 == v_ and v2 == k_ for (f2, k2, v2), _, _ in ins)
            rep.inst('U6', '%s: tested insertion of an edge into `%s` is mirrored in `%s` with the ends swapped: %s' % (path, fwd, rev, ok))
            if not ok:
                same = any(f2 == rev and k2 == k_ and v2 == v_ for (f2, k2, v2), _, _ in ins)
                rep.viol('U6', path, 'edge-not-mirrored' + (':same-direction' if same else ''),
                         'a new class-level edge (a, b) is entered into `%s[a]` but `%s[b]` does not get a%s: rev_set_of and the back-edge '
                         'intersection of `add` read the reverse table' % (fwd, rev, ' (the reverse table gets (a, b) again instead of (b, a))' if same else ''),
                         loc=cr.loc(x))
    return n


def check_U7(ctx, rep, module):
    """size-dispatched set subtraction: where one function offers both `for x in B { A.remove(x) }` and `A.retain(|x| ..B.contains(x)..)`
    on the same two sets, the retain predicate is the negated membership test (both branches compute A \\ B)"""
    cr = ctx.lib('ascent_byods_rels')
    n = 0
    for path, b in sorted(cr.bodies.items()):
        if not path.startswith(module + '::'):
            continue
        removes, retains = [], []
        for x, parents in walk(b['tree']):
            if x.get('k') == 'mcall' and x['m'] == 'remove' and x['a']:
                a_ = chain_root(x['r'])
                # the iterated collection: nearest enclosing for-loop's iterator source
                src = None
                for p_ in reversed(parents):
                    if p_.get('k') == 'match' and p_.get('src') == 'for':
                        e = strip(p_['e'])
                        if e.get('k') == 'call' and e['a'] and cname(callee(e) or {}).endswith('into_iter'):
                            r = chain_root(e['a'][0])
                            if r is not None:
                                src = r['id']
                                break
                if a_ is not None and src is not None and any(lp.get('k') == 'loop' for lp in parents):
                    removes.append((a_['id'], src))
            if x.get('k') == 'mcall' and x['m'] == 'retain' and x['a'] and strip(x['a'][0]).get('k') == 'closure':
                a_ = chain_root(x['r'])
                cl = strip(x['a'][0])
                body = strip(cl['b'])
                neg = False
                while body.get('k') == 'unary' and body.get('op') in ('not', '!'):
                    neg = not neg
                    body = strip(body['e'])
                if a_ is not None and body.get('k') == 'mcall' and body['m'] == 'contains':
                    b_ = chain_root(body['r'])
                    if b_ is not None:
                        retains.append((a_['id'], b_['id'], neg, x))
        for a_id, b_id, neg, x in retains:
            if (a_id, b_id) not in removes:
                continue
            n += 1
            rep.functions.add(path)
            rep.inst('U7', '%s: `retain` branch and remove-loop branch over the same two sets compute the same difference: %s' % (path, neg))
            if not neg:
                rep.viol('U7', path, 'retain-keeps-intersection',
                         'the remove-loop branch computes A \\ B, the `retain` branch keeps A ∩ B (membership test not negated): which one runs '
                         'depends on the relative sizes of the two sets', loc=cr.loc(x))
    return n


# ------------------------------------------------------------------ U8

def check_U8(ctx, rep):
    """uf: a fresh element is its own root and its own class ring, under the id of the slot it is stored in: in `Elems::push` the `next`
    and `parent` cells of the pushed Elem hold one local `id`, obtained from `self.next()` (the current length) *before* the vector
    push, and that id is returned; `UnionFind::push` files the item under the id `elems.push` returned and returns it."""
    cr = ctx.lib('ascent_byods_rels')
    n = 0
    b = cr.bodies.get('uf::elems::Elems::<T>::push')
    if b is None:
        raise Broken('U8: uf::elems::Elems::push not found')
    blk = strip(b['tree'])
    inits = _let_inits(b)
    path = b['path']
    rep.functions.add(path)
    lit = None
    for x, parents in walk(b['tree']):
        if x.get('k') == 'struct' and {'next', 'parent'} <= {f['n'] for f in x.get('fs', [])}:
            lit = (x, parents)
    if lit is None:
        raise Broken('U8: no Elem literal in Elems::push')
    x, parents = lit
    roots = {}
    for f in x['fs']:
        if f['n'] in ('next', 'parent'):
            r = chain_root(f['e'])
            roots[f['n']] = r['id'] if r is not None else None
    tail = chain_root(blk['e']) if blk.get('k') == 'block' and 'e' in blk else None
    idl = roots.get('next')
    init = _unwrap_unsafe(inits[idl]) if idl in inits else None
    from_next = bool(init and init.get('k') == 'mcall' and init['m'] == 'next' and cname(callee(init) or {}).startswith('uf::elems::Elems'))
    # order: the `let id` statement precedes the statement that holds the literal
    order = False
    if blk.get('k') == 'block':
        pos_let = pos_lit = None
        for i, st in enumerate(blk['ss']):
            if st.get('k') == 'let' and st['p'].get('k') == 'bind' and st['p']['id'] == idl:
                pos_let = i
            if _contains(st, lambda y: y is x):
                pos_lit = i
        order = pos_let is not None and pos_lit is not None and pos_let < pos_lit
    ok = idl is not None and roots.get('parent') == idl and from_next and order and tail is not None and tail['id'] == idl
    n += 1
    rep.inst('U8', '%s: next = parent = id, id = self.next() taken before the vector push, id returned: %s' % (path, ok))
    if not ok:
        what = ('next-parent-differ' if roots.get('parent') != idl else 'id-not-from-length' if not from_next else
                'id-taken-after-push' if not order else 'other-id-returned')
        rep.viol('U8', path, 'fresh-element:' + what,
                 'a fresh element must be its own root and ring under the index of its slot: `next` and `parent` hold the same `id`, taken from '
                 '`self.next()` before the push, and `push` returns it (%s)' % what, loc=cr.loc(x))
    b2 = cr.bodies.get('uf::UnionFind::<T>::push')
    if b2 is None:
        raise Broken('U8: uf::UnionFind::push not found')
    rep.functions.add(b2['path'])
    inits2 = _let_inits(b2)
    self_id = _self_id(b2)
    blk2 = strip(b2['tree'])
    tail2 = chain_root(blk2['e']) if blk2.get('k') == 'block' and 'e' in blk2 else None
    found = False
    for y, _ in walk(b2['tree']):
        if y.get('k') == 'mcall' and y['m'] == 'insert' and _self_field(y['r'], self_id) == 'items' and len(y['a']) == 2:
            found = True
            v = chain_root(y['a'][1])

            def from_push(lid, depth=0):
                """the local is the result of elems.push, or is computed from such a local (any id of the fresh element's class will do)"""
                init = _unwrap_unsafe(inits2[lid]) if lid in inits2 else None
                if init is None or depth > 3:
                    return False
                if init.get('k') == 'mcall' and init['m'] == 'push' and _self_field(init['r'], self_id) == 'elems':
                    return True
                return any(z.get('k') == 'path' and z.get('res') == 'local' and z.get('id') != lid and from_push(z['id'], depth + 1)
                           for z, _ in walk(inits2[lid]))
            ok2 = bool(v is not None and from_push(v['id']) and tail2 is not None and from_push(tail2['id']))
            n += 1
            rep.inst('U8', '%s: the item is filed under the id returned by elems.push, which is returned: %s' % (b2['path'], ok2))
            if not ok2:
                rep.viol('U8', b2['path'], 'item-id-not-from-elems-push',
                         'the cell stored in `items` and the result of `push` must be (computed from) the id `elems.push` returned for this very item', loc=cr.loc(y))
    if not found:
        raise Broken('U8: no items.insert in UnionFind::push')
    return n


# ------------------------------------------------------------------ U9

def _branch_tail(e):
    e = strip(e)
    while e.get('k') == 'block' and 'e' in e:
        e = strip(e['e'])
    return e


def check_U9(ctx, rep):
    """uf linking step, sibling branches agree: (a) Elem::union(self, other) puts `other` under self's root (`other.parent.set(self.parent.get())`,
    no write of self.parent) and splices the two class rings by exchanging the `next` pointers; (b) in Elem::union_by_rank every branch
    returns the parent of the element it made the receiver of `union`; (c) union_internal returns the find result whose id it compared
    the new root with."""
    cr = ctx.lib('ascent_byods_rels')
    n = 0
    b = cr.bodies.get('uf::elems::Elem::<T>::union')
    if b is None:
        raise Broken('U9: Elem::union not found')
    ps = [p['id'] for p in b['params'] if p.get('k') == 'bind']
    if len(ps) != 2:
        raise Broken('U9: Elem::union does not have two simple parameters')
    me, other = ps
    inits = _let_inits(b)
    rep.functions.add(b['path'])

    def cell(e):
        """(root local id, field) of `X.<field>` receiver"""
        e = strip(e)
        if e.get('k') == 'field':
            r = chain_root(e)
            return (r['id'] if r is not None else None, e['n'])
        return (None, None)

    def val_src(e, depth=0):
        """(root local, field) when e is `X.<field>.get()` possibly through a local / a `replace` result"""
        e = _unwrap_unsafe(e)
        if e.get('k') == 'mcall' and e['m'] in ('get', 'replace'):
            return cell(e['r']) + (e['m'],)
        if e.get('k') == 'path' and e.get('res') == 'local' and e.get('id') in inits and depth < 3:
            return val_src(inits[e['id']], depth + 1)
        return (None, None, None)
    link_ok = ring_a = ring_b = False
    self_parent_written = False
    top = strip(b['tree'])
    top_stmts = (top.get('ss', []) + ([top['e']] if 'e' in top else [])) if top.get('k') == 'block' else []

    def stmt_index(node):
        for i, st in enumerate(top_stmts):
            if node is not None and _contains(st, lambda y: y is node):
                return i
        return None
    inits_node = {x_['p']['id']: x_ for x_, _ in walk(b['tree']) if x_.get('k') == 'let' and 'i' in x_ and x_['p'].get('k') == 'bind'}
    me_next_writes = [x_ for x_, _ in walk(b['tree']) if x_.get('k') == 'mcall' and x_['m'] in ('set', 'replace') and x_['a']
                      and cell(x_['r']) == (me, 'next') and not _in_assert(cr, x_)]
    for x, parents in walk(b['tree']):
        if _in_assert(cr, x):
            continue
        if x.get('k') == 'mcall' and x['m'] in ('set', 'replace') and x['a']:
            tgt = cell(x['r'])
            src = val_src(x['a'][0])
            if tgt == (other, 'parent') and src[:2] == (me, 'parent'):
                link_ok = True
            if tgt == (me, 'parent'):
                self_parent_written = True
            if tgt == (me, 'next') and src[:2] == (other, 'next'):
                ring_a = True
            if tgt == (other, 'next') and src[:2] == (me, 'next'):
                # the value must be self's *old* next: the result of the `replace` that overwrote it, or a read that precedes that write
                if src[2] == 'replace':
                    ring_b = True
                else:
                    a0 = strip(x['a'][0])
                    rd = stmt_index(inits_node.get(a0.get('id'))) if a0.get('k') == 'path' and a0.get('id') in inits_node else stmt_index(x)
                    wr = min([stmt_index(w) for w in me_next_writes] or [10 ** 6])
                    ring_b = rd is not None and rd < wr
    n += 1
    ok = link_ok and not self_parent_written and ring_a and ring_b
    rep.inst('U9', '%s: other goes under self\'s root, self keeps its parent, the next pointers are exchanged: %s' % (b['path'], ok))
    if not ok:
        what = 'link-direction' if (not link_ok or self_parent_written) else 'ring-splice'
        rep.viol('U9', b['path'], 'union:' + what,
                 'Elem::union(self, other) must set other.parent to self\'s root, leave self.parent alone and exchange self.next / other.next '
                 '(%s)' % what)
    b = cr.bodies.get('uf::elems::Elem::<T>::union_by_rank')
    if b is None:
        raise Broken('U9: Elem::union_by_rank not found')
    rep.functions.add(b['path'])
    for x, parents in walk(b['tree']):
        if x.get('k') != 'if':
            continue
        for br in (x['th'], x.get('el')):
            if br is None:
                continue
            calls = [y for y, _ in walk(br) if y.get('k') == 'mcall' and cname(callee(y) or {}) == 'uf::elems::Elem::<T>::union']
            if len(calls) != 1:
                continue
            recv = chain_root(calls[0]['r'])
            arg = chain_root(calls[0]['a'][0])
            t = _branch_tail(br)
            tr = chain_root(t)
            n += 1
            ok = recv is not None and arg is not None and tr is not None and tr['id'] == recv['id'] and arg['id'] != recv['id'] \
                and t.get('k') == 'mcall' and t['m'] == 'get' and cell(t['r'])[1] == 'parent'
            rep.inst('U9', '%s: branch `%s` returns the parent of the receiver of union: %s' % (b['path'], calls[0].get('snip', '')[:30], ok))
            if not ok:
                rep.viol('U9', b['path'], 'union_by_rank:wrong-root-returned',
                         'a branch of union_by_rank must return `.parent.get()` of the element it made the new root (the receiver of `union`)',
                         loc=cr.loc(calls[0]))
    b = cr.bodies.get('uf::UnionFind::<T>::union_internal')
    if b is None:
        raise Broken('U9: union_internal not found')
    rep.functions.add(b['path'])
    inits = _let_inits(b)
    root_locals = {lid for lid, e in inits.items() if _contains(e, lambda y: y.get('k') == 'mcall' and cname(callee(y) or {}).startswith('uf::elems::Elem::<T>::union'))}
    for x, parents in walk(b['tree']):
        if x.get('k') != 'if' or _in_assert(cr, x):
            continue
        c_ = strip(x['c'])
        if c_.get('k') != 'binary' or c_.get('op') not in ('==', '!='):
            continue
        l, r = chain_root(c_['l']), chain_root(c_['r'])
        if l is None or r is None:
            continue
        cmp_res = cmp_e = None
        if l['id'] in root_locals:
            cmp_res, cmp_e = r, strip(c_['r'])
        elif r['id'] in root_locals:
            cmp_res, cmp_e = l, strip(c_['l'])
        if cmp_res is None:
            continue
        th, el = (x['th'], x.get('el')) if c_['op'] == '==' else (x.get('el'), x['th'])
        t = chain_root(_branch_tail(th)) if th else None
        te = chain_root(_branch_tail(el)) if el else None
        n += 1
        # the new root is compared with the *id* of a find result (its element's parent equals the new root whichever side won)
        is_id = cmp_e.get('k') == 'field' and cmp_e['n'] == 'id' and strip(cmp_e['e']).get('k') == 'path'
        ok = is_id and t is not None and t['id'] == cmp_res['id'] and te is not None and te['id'] != cmp_res['id']
        if not is_id:
            rep.viol('U9', b['path'], 'union_internal:root-not-compared-with-id',
                     'the new root must be compared with the `.id` of a find result; `%s` is not that (after the linking step the parent of either '
                     'root equals the new root, so such a test does not tell which side won)' % cmp_e.get('snip', '?')[:60], loc=cr.loc(x))
            continue
        rep.inst('U9', '%s: the find result whose id equals the new root is the one returned: %s' % (b['path'], ok))
        if not ok:
            rep.viol('U9', b['path'], 'union_internal:wrong-result-returned',
                     'after linking, the branch taken when the new root equals `%s.id` must return `%s`, the other branch the other find result'
                     % (cmp_res['n'], cmp_res['n']), loc=cr.loc(x))
    if n < 4:
        raise Broken('U9: expected 4 sites (union, two branches of union_by_rank, union_internal), found %d' % n)
    return n



# ------------------------------------------------------------------ U10

def check_U10(ctx, rep, impl_prefix, tables):
    """each class once: a query that appends its own class id (`.chain([id])`) to the ids read from a class-edge table has removed that id
    from them first (`filter(|s| s != id)` upstream in the same chain) - a class with a self edge is listed in its own entry."""
    cr = ctx.lib('ascent_byods_rels')
    n = 0
    for path, b in sorted(cr.bodies.items()):
        if not path.startswith(impl_prefix):
            continue
        self_id = _self_id(b)
        for x, parents in walk(b['tree']):
            if x.get('k') != 'mcall' or x['m'] != 'chain' or not x['a']:
                continue
            a0 = strip(x['a'][0])
            if a0.get('k') != 'array' or len(a0.get('es', [])) != 1:
                continue
            own = chain_root(a0['es'][0])
            if own is None:
                continue
            # walk the receiver chain upstream
            r = strip(x['r'])
            from_table = filtered = False
            while r.get('k') == 'mcall':
                if r['m'] == 'filter' and r['a'] and strip(r['a'][0]).get('k') == 'closure':
                    cl = strip(r['a'][0])
                    pids = {bb['id'] for pp_ in cl['ps'] for bb in pat_bindings(pp_)}
                    body = strip(cl['b'])
                    if body.get('k') == 'binary' and body.get('op') == '!=':
                        l_, r_ = chain_root(body['l']), chain_root(body['r'])
                        if l_ is not None and r_ is not None and {l_['id'], r_['id']} & pids and own['id'] in (l_['id'], r_['id']):
                            filtered = True
                if r['m'] in ('get', 'get_mut') and _self_field(r['r'], self_id) in tables:
                    from_table = True
                r = strip(r['r'])
            if not from_table:
                continue
            n += 1
            rep.functions.add(path)
            rep.inst('U10', '%s: own class id appended after it was filtered out of the table entry: %s' % (path, filtered))
            if not filtered:
                rep.viol('U10', path, 'own-class-listed-twice',
                         'the ids read from the class-edge table are chained with the own class id without `filter(|s| s != id)` before: a class '
                         'with a self edge (add(x, x) on a fresh x, or any collapsed cycle) is enumerated twice', loc=cr.loc(x))
    return n
