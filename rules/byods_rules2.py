"""Provider rules added in the fourth round (properties C10 - C12), all about what a *delta* version of a provider relation
shows to rules of the same recursive stratum:

  L22  derived deltas are indexed: the per-key merge of a ternary wrapper derives pairs (closure), so the delta's reverse
       maps must be completed from the delta's per-key relations, not only shifted from `new` (which lists inserted tuples).
  L24  iter_all / index_get agreement: a read view whose index_get filters candidates by a membership test enumerates, through
       iter_all, either by delegating to index_get or under the same test.
  L25  reflexive providers (reflexive on mentioned elements): the delta views can report a pair inside one class, and the merge
       seeds the reflexive pair of first-mentioned elements.
  L26  callee precondition against call sites: a provider merge called with a fresh default delta and an occupied total (the
       adaptor does this when a key resumes) has no panic path that is only excluded by the total being empty.
Nothing is executed."""
from facts import walk, callee
from tree import strip, cname, pat_bindings
from guards import conds_at, diverges
from lib_rules import chain_root, impl_self_ty
from core import Broken

MERGE = 'merge_delta_to_total_new_to_delta'


def _in_scope(path, scope):
    return ('<' + scope + '::') in path or path.startswith(scope + '::') or path.startswith('<' + scope)


def _field_of(e, roots):
    """(root id, first non-tuple field) of a place expression rooted in one of `roots`, through as_mut()/unwrap()/derefs"""
    fld = None
    e = strip(e)
    while True:
        e = strip(e)
        k = e.get('k')
        if k == 'field':
            if e['n'] != '0':
                fld = e['n']
            e = e['e']; continue
        if k in ('addr', 'cast'):
            e = e['e']; continue
        if k == 'unary' and e['op'] == 'deref':
            e = e['e']; continue
        if k == 'mcall' and e['m'] in ('as_mut', 'unwrap', 'as_ref', 'iter', 'iter_mut', 'entry', 'or_default', 'keys', 'values'):
            e = e['r']; continue
        if k == 'path' and e.get('res') == 'local':
            if e['id'] in roots:
                return e['id'], fld
            return None
        return None


# ------------------------------------------------------------------ L22

def check_L22(ctx, rep, scope):
    cr = ctx.lib('ascent_byods_rels')
    n = 0
    for path, b in sorted(cr.bodies.items()):
        if b['name'] != MERGE or not b.get('impl_of') or not _in_scope(path, scope):
            continue
        ps = b['params']
        if len(ps) != 3:
            continue
        new_id, delta_id, total_id = ps[0].get('id'), ps[1].get('id'), ps[2].get('id')
        # a wrapper: it calls another type's merge (the per-key relation's)
        inner = [x for x, _ in walk(b['tree']) if x.get('k') in ('call', 'mcall') and callee(x)
                 and cname(callee(x)).split('::')[-1] == MERGE and callee(x).get('d') != path]
        if not inner:
            continue
        # reverse-map fields of the version structure that the merge shifts (any place `<version>.<field>` with 'reverse' in the name)
        fields = set()
        for x, _ in walk(b['tree']):
            if x.get('k') == 'field' and 'reverse' in x['n']:
                r = _field_of(x, {new_id, delta_id, total_id})
                if r:
                    fields.add(r[1])
        if not fields:
            continue
        # aliases `if let Some(rm) = delta.<f>.as_mut()` / `let rm = delta.<f>.as_mut().unwrap()`
        alias = {}
        for x, _ in walk(b['tree']):
            if x.get('k') == 'let' and 'i' in x:
                r = _field_of(x['i'], {delta_id})
                if r and r[1] in fields:
                    for bb in pat_bindings(x['p']):
                        alias[bb['id']] = r[1]
        # .. and locals derived from such an alias (`let keys_of_x = rm.entry(x).or_default();`)
        grew_ = True
        while grew_:
            grew_ = False
            for x, _ in walk(b['tree']):
                if x.get('k') == 'let' and 'i' in x:
                    r = _field_of(x['i'], set(alias))
                    if r and r[0] in alias:
                        for bb in pat_bindings(x['p']):
                            if bb['id'] not in alias:
                                alias[bb['id']] = alias[r[0]]; grew_ = True
        # loops over delta.map (after the merge) that insert into delta.<f>
        completed = set()
        order = {id(x): i for i, (x, _) in enumerate(walk(b['tree']))}
        # events on the delta's per-key map, in source order: emptied (drain / mem::take) or (re)filled (assignment)
        events = []
        for x, _ in walk(b['tree']):
            if x.get('k') == 'assign':
                r = _field_of(x['l'], {delta_id})
                if r and r[1] and 'reverse' not in r[1]:
                    events.append((order[id(x)], 'filled', r[1]))
            if x.get('k') == 'mcall' and x['m'] == 'drain':
                r = _field_of(x['r'], {delta_id})
                if r and r[1] and 'reverse' not in r[1]:
                    events.append((order[id(x)], 'emptied', r[1]))
            if x.get('k') == 'call' and callee(x) and cname(callee(x)).endswith(('mem::take', 'mem::replace')) and x.get('a'):
                r = _field_of(x['a'][0], {delta_id})
                if r and r[1] and 'reverse' not in r[1]:
                    events.append((order[id(x)], 'emptied', r[1]))
        for x, parents in walk(b['tree']):
            if x.get('k') != 'match' or x.get('src') != 'for':
                continue
            scr = strip(x['e'])
            it = scr['a'][0] if scr.get('k') == 'call' and scr.get('a') else scr
            r = _field_of(it, {delta_id})
            if not r or r[1] is None or 'reverse' in r[1]:
                continue
            # the loop has to walk the per-key deltas of THIS merge: the last thing that happened to the map before the loop is not
            # that it was emptied
            before = [e for e in events if e[0] < order[id(x)] and e[2] == r[1]]
            if before and max(before)[1] == 'emptied':
                rep.inst('L22', '%s: a loop over the delta\'s `%s` runs while the map is drained (it is refilled only afterwards)' % (path, r[1]))
                continue
            for y, yps in walk(x['arms'][0]['b']):
                if y.get('k') == 'mcall' and y['m'] in ('insert', 'push', 'extend'):
                    rr = _field_of(y['r'], {delta_id} | set(alias))
                    if rr:
                        f = alias.get(rr[0], rr[1])
                        if f in fields:
                            # the completion of one reverse map must not hinge on the presence of another one (they are chosen
                            # independently, by the index set of the program): no `let Some(..) = delta.<g> else { continue }` with g != f
                            # before it in an enclosing block, no enclosing `if let Some(..) = delta.<g>`
                            hinge = None
                            chain = list(yps) + [y]
                            for i_, q in enumerate(chain[:-1]):
                                nxt = chain[i_ + 1]
                                if q.get('k') == 'block':
                                    for st in q.get('ss', []):
                                        if st is nxt or any(z is nxt for z, _ in walk(st)):
                                            break
                                        if st.get('k') == 'let' and 'els' in st and 'i' in st:
                                            g = _field_of(st['i'], {delta_id})
                                            if g and g[1] in fields and g[1] != f:
                                                hinge = g[1]
                                if q.get('k') == 'if' and strip(q['c']).get('k') == 'let' and nxt is q['th']:
                                    g = _field_of(strip(q['c'])['i'], {delta_id})
                                    if g and g[1] in fields and g[1] != f:
                                        hinge = g[1]
                                elif q.get('k') == 'if' and (nxt is q['th'] or nxt is q.get('el')):
                                    # any other condition between the loop and the insertion: some column values of the delta are
                                    # left out of the reverse map (e.g. "the value is a key of the map already" - under other keys only)
                                    hinge = 'a condition (%s)' % (strip(q['c']).get('snip') or '?')[:60]
                            if hinge:
                                rep.inst('L22', '%s: the completion of `%s` hinges on %s' % (path, f, hinge))
                                continue
                            completed.add(f)
        for f in sorted(fields):
            n += 1
            ok = f in completed
            rep.inst('L22', '%s: the delta\'s `%s` is completed from the delta\'s per-key relations after the per-key merges (%d inner merges derive pairs): %s' % (
                path, f, len(inner), ok))
            rep.functions.add(path)
            if not ok:
                rep.viol('L22', path, 'derived-delta-unindexed:' + f,
                         'the per-key merge derives pairs (closure) whose column values were inserted in earlier iterations, but the delta\'s `%s` only '
                         'receives the values of the tuples inserted in the last iteration: a rule of the same stratum that reads the relation through '
                         'this reverse map (key column free) misses the derived tuples' % f, loc=cr.loc(inner[0]))
    return n


# ------------------------------------------------------------------ L24

_MEMBER_TESTS = ('contains', 'added_contains', 'contains_key')


def check_L24(ctx, rep, scope):
    cr = ctx.lib('ascent_byods_rels')
    by_ty = {}
    for path, b in cr.bodies.items():
        if not b.get('impl_of') or not _in_scope(path, scope):
            continue
        tr = b.get('trait_of') or ''
        if b['name'] == 'iter_all' and tr.endswith('RelIndexReadAll'):
            by_ty.setdefault(impl_self_ty(b), {})['iter_all'] = b
        if b['name'] == 'index_get' and tr.endswith('RelIndexRead'):
            by_ty.setdefault(impl_self_ty(b), {})['index_get'] = b
    n = 0
    for ty, d in sorted(by_ty.items()):
        if len(d) != 2:
            continue

        def tests(b, in_filter_only=False):
            """membership tests applied (inside a filter closure, if asked) to candidates"""
            out = set()
            for x, parents in walk(b['tree']):
                if x.get('k') == 'mcall' and x['m'] in _MEMBER_TESTS:
                    if in_filter_only:
                        ok = False
                        for i, p in enumerate(parents):
                            if p.get('k') == 'closure' and i > 0 and parents[i - 1].get('k') == 'mcall' and parents[i - 1]['m'] in ('filter', 'filter_map'):
                                ok = True
                        if not ok:
                            continue
                    # an exclusion (`!old.contains(..)`: delta minimisation) is not a membership requirement
                    if sum(1 for p in parents if p.get('k') == 'unary' and p.get('op') == 'not') % 2 == 1:
                        continue
                    out.add(x['m'])
            return out

        def delegates(b):
            for x, _ in walk(b['tree']):
                if x.get('k') == 'mcall' and x['m'] in ('index_get', 'get') and (chain_root(x['r']) or {}).get('n') == 'self':
                    r = strip(x['r'])
                    if r.get('k') == 'path':      # self.index_get(..) / self.get(..) : a method of the view itself
                        return True
            return False
        def with_helpers(b, in_filter_only):
            out = tests(b, in_filter_only)
            for x, _ in walk(b['tree']):
                c = callee(x) if x.get('k') in ('call', 'mcall') else None
                if c and c.get('d') in cr.bodies and c['d'] != b['path'] and cr.bodies[c['d']]['name'] not in ('index_get', 'iter_all'):
                    out |= tests(cr.bodies[c['d']], in_filter_only)
            return out
        t_get = with_helpers(d['index_get'], True)
        if not t_get:
            continue
        n += 1
        t_all = with_helpers(d['iter_all'], False)
        dele = delegates(d['iter_all'])
        ok = dele or t_get <= t_all
        rep.inst('L24', '%s: index_get filters by %s; iter_all %s: %s' % (ty, sorted(t_get), 'delegates to it' if dele else 'filters by %s' % sorted(t_all), ok))
        rep.functions.add(d['iter_all']['path'])
        if not ok:
            rep.viol('L24', d['iter_all']['path'], 'iter-all-unfiltered:' + ','.join(sorted(t_get - t_all)),
                     'index_get of `%s` keeps a candidate only if `%s` holds, iter_all lists the candidates without that test: when the generated join '
                     'iterates this index (it does when it is the smaller side) tuples that are not in the relation are produced' % (ty, '/'.join(sorted(t_get - t_all))),
                     loc=cr.loc(d['iter_all']['tree']))
    return n


# ------------------------------------------------------------------ L25

def check_L25(ctx, rep, scope, delta_ty):
    """delta_ty: the type whose inherent read methods implement the Delta version (e.g. trrel_union_find_binary_ind::TrRelDelta)"""
    cr = ctx.lib('ascent_byods_rels')
    n = 0
    # (a) no read view of the delta rejects a pair because both sides are in the same class
    for path, b in sorted(cr.bodies.items()):
        if not path.startswith(delta_ty + '::') and not path.startswith(delta_ty + '<'):
            if not (b.get('impl_of') or '').startswith(delta_ty):
                continue
        if b['name'] in ('default', 'is_empty'):
            continue
        # locals that hold class ids: results of elem_set(..) / keys of set_connections
        rejecting = []
        for x, parents in walk(b['tree']):
            if x.get('k') == 'binary' and x['op'] in ('==', '!='):
                l, r = strip(x['l']), strip(x['r'])

                def is_set_id(e):
                    e = strip(e)
                    while e.get('k') == 'unary' and e['op'] == 'deref':
                        e = strip(e['e'])
                    return e.get('k') == 'path' and e.get('res') == 'local' and ('set' in e.get('n', ''))
                if not (is_set_id(l) and is_set_id(r)):
                    continue
                par = parents[-1] if parents else {}
                # `if a == b { return None }`  or  `.filter(|y| y != x)`
                if x['op'] == '==':
                    for p in reversed(parents):
                        if p.get('k') == 'if' and strip(p['c']) is x and diverges(p['th']):
                            rejecting.append(x)
                        if p.get('k') == 'if':
                            break
                else:
                    for p in reversed(parents):
                        if p.get('k') == 'closure':
                            rejecting.append(x); break
        n += 1
        ok = not rejecting
        rep.inst('L25', '%s: the delta view does not reject pairs inside one class: %s' % (path, ok))
        rep.functions.add(path)
        if not ok:
            rep.viol('L25', path, 'delta-rejects-same-class',
                     'this view of the delta rejects every pair whose two sides are in the same class (`%s`): the reflexive pair of an element '
                     'mentioned for the first time can never be seen by rules of the same stratum' % (rejecting[0].get('snip') or '')[:50], loc=cr.loc(rejecting[0]))
    # (b) the merge seeds the reflexive pair: an insertion into an entry keyed by the same local that is inserted
    for path, b in sorted(cr.bodies.items()):
        if b['name'] != MERGE or not b.get('impl_of') or not _in_scope(path, scope):
            continue
        seeded = False
        for x, _ in walk(b['tree']):
            if x.get('k') == 'mcall' and x['m'] == 'insert' and len(x['a']) == 1:
                v = strip(x['a'][0])
                # receiver chain: <map>.entry(k).or_default()
                r = strip(x['r'])
                key = None
                while r.get('k') == 'mcall':
                    if r['m'] == 'entry' and r['a']:
                        key = strip(r['a'][0])
                    r = strip(r['r'])
                if key is not None and key.get('k') == 'path' and v.get('k') == 'path' and key.get('res') == 'local' and key.get('id') == v.get('id'):
                    seeded = True
        n += 1
        rep.inst('L25', '%s: the merge seeds a reflexive class pair (entry(id).insert(id)) for first-mentioned elements: %s' % (path, seeded))
        rep.functions.add(path)
        if not seeded:
            rep.viol('L25', path, 'no-reflexive-seed',
                     'the closure loop starts from the inserted pairs only; the joins cannot produce (c, c) for a class without a cycle, so the '
                     'reflexive pair of an element mentioned for the first time is in the total but never in a delta')
    return n


# ------------------------------------------------------------------ L26

def check_L26(ctx, rep, adaptor_scope, callee_scopes):
    cr = ctx.lib('ascent_byods_rels')
    # call sites in the adaptor: inner merge with a delta argument that is a fresh Default and a total that comes from an occupied entry
    sites = []
    for path, b in sorted(cr.bodies.items()):
        if b['name'] != MERGE or not _in_scope(path, adaptor_scope):
            continue
        fresh = set()
        for x, _ in walk(b['tree']):
            if x.get('k') == 'let' and 'i' in x:
                c = callee(strip(x['i'])) if strip(x['i']).get('k') in ('call', 'mcall') else None
                if c and cname(c).endswith('Default::default'):
                    for bb in pat_bindings(x['p']):
                        fresh.add(bb['id'])
        for x, parents in walk(b['tree']):
            if x.get('k') in ('call',) and callee(x) and cname(callee(x)).split('::')[-1] == MERGE and len(x['a']) == 3:
                d_root = chain_root(x['a'][1])
                t_arg = strip(x['a'][2])
                occupied = False
                for y, _ in walk(t_arg):
                    if y.get('k') == 'mcall' and y['m'] in ('get_mut', 'into_mut'):
                        occupied = True
                if d_root is not None and d_root['id'] in fresh and occupied:
                    sites.append((path, x))
    rep.inst('L26', '%s: %d call sites pass a fresh default delta together with an occupied total' % (adaptor_scope, len(sites)))
    if not sites:
        return 0
    n = 0
    for path, b in sorted(cr.bodies.items()):
        if b['name'] != MERGE or not b.get('impl_of') or not any(_in_scope(path, s) for s in callee_scopes):
            continue
        ps = b['params']
        delta_id, total_id = ps[1].get('id'), ps[2].get('id')
        for x, parents in walk(b['tree']):
            if x.get('k') != 'if' or 'el' in x or not diverges(x['th']):
                continue
            is_panic = any(y.get('k') == 'call' and 'panicking' in (callee(y) or {}).get('d', '') for y, _ in walk(x['th']))
            if not is_panic:
                continue
            cond = strip(x['c'])
            mentions_total = any(y.get('k') == 'path' and y.get('res') == 'local' and y.get('id') == total_id for y, _ in walk(cond))
            if not mentions_total:
                continue
            n += 1
            guarded = False
            for c, pol in conds_at(parents, x):
                if c.get('k') == 'mcall' and c['m'] == 'is_empty' and (chain_root(c['r']) or {}).get('id') == delta_id and pol is False:
                    guarded = True
            rep.inst('L26', '%s: assertion `%s` on the total is only reached with a non-empty delta: %s' % (path, (cond.get('snip') or '')[:50], guarded))
            rep.functions.add(path)
            if not guarded:
                rep.viol('L26', path, 'assert-on-total-with-default-delta',
                         'the adaptor calls this merge with a fresh default delta and an occupied total when a key receives tuples again after a pause '
                         '(%s); the assertion `%s` then fails: run() panics' % (sites[0][0].split(' as ')[0][:80], (cond.get('snip') or '')[:60]), loc=cr.loc(x))
    return n


# ------------------------------------------------------------------ L28 / L29

_ID_SOURCES = {'elem_set', 'elem_set_update', 'get_dominant_id', 'get_dominant_id_mut', 'get_dominant_id_update', 'add_node', 'add_node_new'}


def _self_field_root(e, self_id):
    """first field below `self` of a place / receiver chain rooted in self (None otherwise)"""
    fld = None
    e = strip(e)
    while True:
        e = strip(e)
        k = e.get('k')
        if k == 'field':
            fld = e['n']; e = e['e']; continue
        if k in ('addr', 'cast', 'index'):
            e = e['e']; continue
        if k == 'unary' and e['op'] == 'deref':
            e = e['e']; continue
        if k == 'mcall':
            e = e['r']; continue
        if k == 'match' and e.get('src') in ('try', '?'):
            e = e['e']; continue
        if k == 'call' and e.get('a'):
            e = e['a'][0]; continue
        if k == 'path' and e.get('res') == 'local' and e['id'] == self_id:
            return fld
        return None


def check_L28(ctx, rep, modules):
    """class ids are relative to the union-find they come from: an id obtained from one union-find field of a structure
    (`self.combined.elem_set(x)`) must not index the class table (`.sets`) of another one (`self.old.sets[id]`) - the two agree
    only until classes that both already knew are united."""
    cr = ctx.lib('ascent_byods_rels')
    n = 0
    for path, b in sorted(cr.bodies.items()):
        if not any(_in_scope(path, m) for m in modules) or not b['params'] or b['params'][0].get('k') != 'bind' or b['params'][0].get('n') != 'self':
            continue
        self_id = b['params'][0]['id']
        origin = {}     # local id -> field of self the id was obtained from
        for x, parents in walk(b['tree']):
            if x.get('k') == 'let' and 'i' in x:
                src = None
                for y, _ in walk(x['i']):
                    if y.get('k') == 'mcall' and y['m'] in _ID_SOURCES:
                        f = _self_field_root(y['r'], self_id)
                        if f:
                            src = f
                if src:
                    for bb in pat_bindings(x['p']):
                        origin[bb['id']] = src
            if x.get('k') == 'mcall' and x['m'] in ('map', 'and_then', 'is_some_and', 'filter') and x['a'] and strip(x['a'][0]).get('k') == 'closure':
                src = None
                for y, _ in walk(x['r']):
                    if y.get('k') == 'mcall' and y['m'] in _ID_SOURCES:
                        f = _self_field_root(y['r'], self_id)
                        if f:
                            src = f
                if src:
                    for pp_ in strip(x['a'][0])['ps']:
                        for bb in pat_bindings(pp_):
                            origin[bb['id']] = src
        if not origin:
            continue
        for x, parents in walk(b['tree']):
            tbl = idx = None
            if x.get('k') == 'index':
                tbl, idx = x['e'], x['i']
            elif x.get('k') == 'mcall' and x['m'] in ('get', 'get_mut', 'get_unchecked') and x['a']:
                tbl, idx = x['r'], x['a'][0]
            if tbl is None:
                continue
            t = strip(tbl)
            while t.get('k') in ('addr',) or (t.get('k') == 'unary' and t.get('op') == 'deref'):
                t = strip(t['e'])
            if t.get('k') != 'field' or t['n'] != 'sets':
                continue
            f_tbl = _self_field_root(t, self_id)
            il = strip(idx)
            while il.get('k') in ('addr',) or (il.get('k') == 'unary' and il.get('op') == 'deref'):
                il = strip(il['e'])
            if il.get('k') != 'path' or il.get('res') != 'local' or il['id'] not in origin or f_tbl in (None, 'sets'):
                continue
            n += 1
            ok = origin[il['id']] == f_tbl
            rep.inst('L28', '%s: `%s.sets` indexed with an id obtained from `%s`: %s' % (path, f_tbl, origin[il['id']], ok))
            rep.functions.add(path)
            if not ok:
                rep.viol('L28', path, 'foreign-class-id:%s->%s' % (origin[il['id']], f_tbl),
                         'a class id resolved in `%s` indexes the class table of `%s`: the ids of the two union-finds differ as soon as two classes '
                         'known to both are united (the delta then hides the pairs that are really new)' % (origin[il['id']], f_tbl), loc=cr.loc(x))
    return n


def check_L29(ctx, rep, scope):
    """memo blocks `if KEYSLOT.as_ref() != Some(k) { VALSLOT = table.get(k'); KEYSLOT = Some(k''.clone()) }`: the key that is tested,
    the key that is looked up and the key that is remembered are the same variable."""
    cr = ctx.lib('ascent_byods_rels')
    n = 0
    for path, b in sorted(cr.bodies.items()):
        if b['name'] != MERGE or not _in_scope(path, scope):
            continue
        for x, parents in walk(b['tree']):
            if x.get('k') != 'if' or 'el' in x:
                continue
            c = strip(x['c'])
            if c.get('k') != 'binary' or c['op'] != '!=':
                continue
            l, r = strip(c['l']), strip(c['r'])
            if not (l.get('k') == 'mcall' and l['m'] == 'as_ref'):
                continue
            slot = chain_root(l['r'])
            k1 = None
            if r.get('k') == 'call' and len(r.get('a', [])) == 1:
                k1 = chain_root(r['a'][0])
            if slot is None or k1 is None:
                continue
            k2 = k3 = None
            for y, _ in walk(x['th']):
                if y.get('k') == 'assign':
                    tgt = chain_root(y['l'])
                    rhs = strip(y['r'])
                    if tgt is not None and tgt['id'] == slot['id']:
                        # KEYSLOT = Some(k.clone()) / Some(*k)
                        for z, _ in walk(rhs):
                            if z.get('k') == 'path' and z.get('res') == 'local' and z['id'] != slot['id']:
                                k3 = z; break
                    elif rhs.get('k') == 'mcall' and rhs['m'] in ('get', 'get_key_value') and rhs['a']:
                        k2 = chain_root(rhs['a'][0])
            if k2 is None or k3 is None:
                continue
            n += 1
            ok = k1['id'] == k2['id'] == k3['id']
            rep.inst('L29', '%s: memo block on `%s`: tested / looked up / remembered key = %s / %s / %s: %s' % (path, slot.get('n'), k1.get('n'), k2.get('n'), k3.get('n'), ok))
            rep.functions.add(path)
            if not ok:
                rep.viol('L29', path, 'memo-key:%s:%s/%s/%s' % (slot.get('n'), k1.get('n'), k2.get('n'), k3.get('n')),
                         'the memo `%s` is tested against `%s`, filled by a lookup of `%s` and tagged with `%s`: a stale entry answers for another key' % (
                             slot.get('n'), k1.get('n'), k2.get('n'), k3.get('n')), loc=cr.loc(x))
    return n


# ------------------------------------------------------------------ L30

_ITER_METHODS = {'iter', 'keys', 'values', 'into_iter', 'iter_mut', 'drain', 'par_iter'}


def check_L30(ctx, rep):
    """complete registry: every scan of the union-find *total* (TrRelUnionFind::iter_all and the `Total` arms of the binary index's
    ind0_iter_all / ind1_iter_all / iter_all) draws its outermost enumeration from a field that `add_node_new` writes. A node that
    was registered with only its reflexive tuple (or whose class has no edge to another class) has no entry in the connection maps:
    a scan that starts from those maps skips tuples that `contains` and the keyed lookups report."""
    from byods_rules import _mutated_fields
    cr = ctx.lib('ascent_byods_rels')
    reg_b = cr.bodies.get('trrel_union_find::TrRelUnionFind::<T>::add_node_new')
    if reg_b is None:
        raise Broken('L30: TrRelUnionFind::add_node_new not found')
    registry = _mutated_fields(cr, reg_b, reg_b['params'][0]['id'], depth=3) - {'<self>'}    # depth=3: own statements only, helpers not followed
    if not registry:
        raise Broken('L30: add_node_new writes no field?')
    rep.functions.add(reg_b['path'])

    def outermost_source(tree, root_ids):
        best = None
        # `let elems = &self.elem_ids;` : an alias of a field of the structure
        alias = {}
        for n, _ in walk(tree):
            if n.get('k') == 'let' and 'i' in n and n['p'].get('k') == 'bind':
                i = strip(n['i'])
                while i.get('k') in ('addr',) or (i.get('k') == 'unary' and i.get('op') == 'deref'):
                    i = strip(i['e'])
                if i.get('k') == 'field':
                    base = strip(i['e'])
                    while base.get('k') in ('addr',) or (base.get('k') == 'unary' and base.get('op') == 'deref'):
                        base = strip(base['e'])
                    if base.get('k') == 'path' and base.get('res') == 'local' and base['id'] in root_ids:
                        alias[n['p']['id']] = i['n']
        for n, parents in walk(tree):
            if n.get('k') != 'mcall' or n['m'] not in _ITER_METHODS:
                continue
            r = strip(n['r'])
            while r.get('k') in ('addr', 'index') or (r.get('k') == 'unary' and r.get('op') == 'deref'):
                r = strip(r['e'])
            if r.get('k') == 'path' and r.get('res') == 'local' and r['id'] in alias:
                d = len(parents)
                if best is None or d < best[0]:
                    best = (d, alias[r['id']], n)
                continue
            if r.get('k') != 'field':
                continue
            base = strip(r['e'])
            while base.get('k') in ('addr',) or (base.get('k') == 'unary' and base.get('op') == 'deref'):
                base = strip(base['e'])
            if base.get('k') == 'path' and base.get('res') == 'local' and base['id'] in root_ids:
                d = len(parents)
                if best is None or d < best[0]:
                    best = (d, r['n'], n)
        return best

    sites = []
    b = cr.bodies.get('trrel_union_find::TrRelUnionFind::<T>::iter_all')
    if b is None:
        raise Broken('L30: TrRelUnionFind::iter_all not found')
    sites.append((b, b['tree'], {b['params'][0]['id']}, 'iter_all'))
    for path, bb in sorted(cr.bodies.items()):
        if bb['name'] in ('ind0_iter_all', 'ind1_iter_all', 'iter_all') and 'trrel_union_find_binary_ind::TrRelIndCommon<T>' in impl_self_ty(bb):
            for n, _ in walk(bb['tree']):
                if n.get('k') != 'match':
                    continue
                for a in n['arms']:
                    d = ((a['p'].get('path') or {}).get('d') or '') if isinstance(a['p'].get('path'), dict) else str(a['p'].get('path') or a['p'].get('d') or '')
                    if not d.endswith('::Total'):
                        continue
                    ids = {x['id'] for x in pat_bindings(a['p'])}
                    sites.append((bb, a['b'], ids, '%s (Total arm)' % bb['name']))
    n_direct = 0
    for b, tree, ids, what in sites:
        rep.functions.add(b['path'])
        src = outermost_source(tree, ids)
        if src is None:
            rep.inst('L30', '%s: delegates (no field of the union-find is enumerated here)' % what)
            continue
        n_direct += 1
        ok = src[1] in registry
        rep.inst('L30', '%s: enumerates from `%s` (registry fields %s): %s' % (what, src[1], sorted(registry), ok))
        if not ok:
            rep.viol('L30', b['path'], 'scan-source:%s' % src[1],
                     'a scan of the union-find total enumerates from `%s`, which add_node_new does not write (registry: %s): a class with '
                     'no entry there - e.g. a node known only by its reflexive tuple - is skipped by the scan although lookups find it'
                     % (src[1], sorted(registry)), loc=cr.loc(src[2]))
    if n_direct < 3:
        raise Broken('L30: only %d scans of the union-find total recognised (3 confirmed by reading)' % n_direct)


# ------------------------------------------------------------------ L32

def check_L32(ctx, rep):
    """class ids do not survive a collapse: in the union-find backed merge, every class id that is taken from the structure and
    kept (add_node / add_node_new / elem_set / get_dominant_id ..) is taken after the last call that can make one class dominated by
    another (`TrRelUnionFind::add` -> merge_multiple, when the added pair closes a cycle). An id recorded before such a call may name
    a dead class afterwards: the delta built from it is empty for that class. Collapsing methods = the `&mut self` methods of
    TrRelUnionFind from which `merge_multiple` is reachable (confirmed by reading: the only place where `set_subsumptions` gets a new
    subsumption as opposed to a path compression)."""
    cr = ctx.lib('ascent_byods_rels')
    mm = [p for p in cr.bodies if p.startswith('trrel_union_find::TrRelUnionFind::<T>::') and cr.bodies[p]['name'] == 'merge_multiple']
    if not mm:
        raise Broken('L32: TrRelUnionFind::merge_multiple not found (anchor of the collapsing methods)')
    # call graph inside the type
    calls = {}
    for p, b in cr.bodies.items():
        if not p.startswith('trrel_union_find::TrRelUnionFind::<T>::'):
            continue
        calls[p] = {callee(x).get('d') for x, _ in walk(b['tree']) if x.get('k') in ('call', 'mcall') and callee(x) and callee(x).get('d')}
    collapsing = set(mm)
    grew = True
    while grew:
        grew = False
        for p, cs in calls.items():
            if p not in collapsing and cs & collapsing:
                collapsing.add(p); grew = True
    coll_names = {cr.bodies[p]['name'] for p in collapsing}
    rep.inst('L32', 'collapsing methods of TrRelUnionFind: %s' % sorted(coll_names))
    n = 0
    for path, b in sorted(cr.bodies.items()):
        if 'trrel_union_find_binary_ind' not in path:
            continue
        order = {id(x): i for i, (x, _) in enumerate(walk(b['tree']))}
        coll, ids = {}, {}
        for x, parents in walk(b['tree']):
            if x.get('k') != 'mcall':
                continue
            d = (x.get('c') or {}).get('d') or ''
            if not d.startswith('trrel_union_find::TrRelUnionFind::<T>::'):
                continue
            root = chain_root(x['r'])
            if root is None:
                continue
            if d in collapsing:
                coll.setdefault(root['id'], []).append((order[id(x)], x, root.get('n')))
            elif x['m'] in _ID_SOURCES:
                # kept = bound by a let / stored, i.e. not just compared on the spot
                if any(p_.get('k') == 'let' for p_ in parents[-4:]) or any(p_.get('k') == 'mcall' and p_['m'] in ('insert', 'push', 'entry') for p_ in parents[-4:]):
                    ids.setdefault(root['id'], []).append((order[id(x)], x, root.get('n')))
        for rid in coll:
            if rid not in ids:
                continue
            n += 1
            last_c = max(coll[rid], key=lambda t: t[0])
            first_i = min(ids[rid], key=lambda t: t[0])
            ok = last_c[0] < first_i[0]
            rep.inst('L32', '%s: on `%s` the last collapsing call (%s) precedes the first class id that is kept (%s): %s' % (
                path, last_c[2], last_c[1]['m'], first_i[1]['m'], ok))
            rep.functions.add(path)
            if not ok:
                rep.viol('L32', path, 'stale-class-id:' + first_i[1]['m'],
                         'a class id is taken from `%s` with %s and kept, and `%s` - which can collapse classes - is called on it afterwards: '
                         'an id recorded before the collapse may name a dead class, the delta built from it is empty for that class'
                         % (first_i[2], first_i[1]['m'], last_c[1]['m']), loc=cr.loc(last_c[1]))
    if n < 1:
        raise Broken('L32: no function with both a collapsing call and kept class ids found in trrel_union_find_binary_ind (1 confirmed by reading)')


# ------------------------------------------------------------------ L33

def check_L33(ctx, rep):
    """`EqRel::combine` (the step that folds `new` into the delta of the binary eqrel, L15's `combine`) carries every element of every
    class of `other` over - also the only element of a one-element class (a reflexive fact about an element mentioned nowhere else).
    Read off the code: the representative taken from a class with `next()` reaches `self.add(..)` / `add_node(..)` either outside
    any loop over the rest of the class (a loop over the rest runs zero times for a singleton), or in a branch that is guarded by
    `len() > 1` while another branch handles `len() == 1`."""
    cr = ctx.lib('ascent_byods_rels')
    b = cr.bodies.get('union_find::EqRel::<T>::combine')
    if b is None:
        raise Broken('L33: union_find::EqRel::combine not found')
    rep.functions.add(b['path'])
    from guards import conds_at
    n = 0
    reprs = []      # (local id, binding node, parents)
    for x, parents in walk(b['tree']):
        # `let repr = <..>.next().unwrap()` / `if let Some(repr) = <..>.next()`
        if x.get('k') == 'let' and 'i' in x:
            has_next = any(y.get('k') == 'mcall' and y['m'] == 'next' for y, _ in walk(x['i']))
            if has_next:
                for bb in pat_bindings(x['p']):
                    reprs.append((bb['id'], x, parents))
    if not reprs:
        raise Broken('L33: no representative taken with next() in EqRel::combine (shape not recognised)')
    for rid, bind, bparents in reprs:
        adds = []
        for x, parents in walk(b['tree']):
            if x.get('k') == 'mcall' and x['m'] in ('add', 'add_node', 'add_node_new'):
                if any((chain_root(a) or {}).get('id') == rid for a in x['a']):
                    # loops between the binding's block and the call
                    in_loop = False
                    for p_ in parents:
                        if p_ in bparents or p_ is bind:
                            continue
                        if p_.get('k') == 'loop' or (p_.get('k') == 'match' and p_.get('src') == 'for'):
                            in_loop = True
                    adds.append((x, in_loop))
        n += 1
        loop_free = any(not l for _, l in adds)
        guarded = False
        for c, pol in conds_at(bparents, bind):
            c = strip(c)
            if c.get('k') == 'binary' and pol and strip(c['l']).get('k') == 'mcall' and strip(c['l'])['m'] == 'len':
                v = strip(c['r']).get('v')
                if (c['op'] == '>' and v == '1') or (c['op'] == '>=' and v == '2'):
                    guarded = True
        ok = bool(adds) and (loop_free or guarded)
        rep.inst('L33', 'EqRel::combine: a representative reaches add %s: %s' % (
            'outside any loop over the rest' if loop_free else ('only inside a loop, under len() > 1' if guarded else 'ONLY inside a loop over the rest'), ok))
        if not ok:
            rep.viol('L33', b['path'], 'singleton-class-dropped',
                     'the representative of a class of `other` is passed to `add` only inside the loop over the rest of the class: for a class with '
                     'one element that loop runs zero times and the element (a reflexive fact about an element mentioned nowhere else) is '
                     'dropped by the merge', loc=cr.loc(bind))
    return n


# ------------------------------------------------------------------ L34

def check_L34(ctx, rep, modules):
    """the delta of the binary eqrel is `combined \\ old` on *pairs*: a read view may leave out a pair (x, y) that `old` relates
    (`!old.contains(x, y)`, or y taken from x's old class), never everything that starts at an element `old` merely knows: when
    the class of a known element grows, the pairs (x_old, y_new) are new. Flagged: a filter predicate of a read view that consults
    the element registry of the old part (`old.elem_ids`) - an element-level test - instead of a pair-level one."""
    cr = ctx.lib('ascent_byods_rels')
    n_filters = 0
    for path, b in sorted(cr.bodies.items()):
        if not any(_in_scope(path, m) for m in modules) or b['name'].startswith('test'):
            continue
        for x, parents in walk(b['tree']):
            if x.get('k') != 'mcall' or x['m'] not in ('filter', 'filter_map', 'skip_while', 'take_while', 'retain') or not x['a']:
                continue
            clo = strip(x['a'][0])
            if clo.get('k') != 'closure':
                continue
            n_filters += 1
            elem_level = None
            for y, _ in walk(clo['b']):
                if y.get('k') == 'field' and y['n'] == 'elem_ids':
                    base = strip(y['e'])
                    while base.get('k') in ('addr',) or (base.get('k') == 'unary' and base.get('op') == 'deref'):
                        base = strip(base['e'])
                    if base.get('k') == 'field' and base['n'] == 'old':
                        elem_level = y
            rep.inst('L34', '%s: %s predicate: %s' % (path, x['m'], 'ELEMENT-LEVEL test against old.elem_ids' if elem_level is not None else 'no element-level exclusion'))
            rep.functions.add(path)
            if elem_level is not None:
                rep.viol('L34', path, 'element-level-exclusion',
                         'a read view of the delta leaves out everything that starts at an element the old part already knows (`old.elem_ids`): '
                         'the pairs (x_old, y_new) that appear when the class of a known element grows are new and must be shown', loc=cr.loc(elem_level))
    if n_filters < 4:
        raise Broken('L34: only %d filter predicates found in the eqrel read views (anchor lost?)' % n_filters)


# ------------------------------------------------------------------ L36

def check_L36(ctx, rep, pairs):
    """optional reverse maps exist wherever a view unwraps them: the ternary wrappers keep `reverse_map1` / `reverse_map2` only when a
    const generic flag says so, and the flags are computed by the provider macro from the index set of the program
    (`inds_contain!($indices, [1]) || inds_contain!($indices, [1, 2])`). The read views `..Ind<cols>` unwrap the maps. For every view
    that unwraps `reverse_mapN`, the N-th flag expression of the macro mentions that view's column set - otherwise a program that
    uses this index (and no other one that switches the map on) panics in `unwrap()` at run time."""
    import re
    cr = ctx.lib('ascent_byods_rels')
    n = 0
    for macro_name, module in pairs:
        mac = [m for m in cr.macros if m['n'] == macro_name]
        if not mac:
            raise Broken('L36: macro %s not found' % macro_name)
        body = mac[0]['body']
        flags = re.findall(r'\{\s*\$crate::inds_contain!.*?\}', body, re.S)
        if len(flags) < 2:
            raise Broken('L36: %s: fewer than two flag expressions over inds_contain! found' % macro_name)
        flag_sets = []
        for fl in flags[:2]:
            flag_sets.append({tuple(int(x) for x in re.findall(r'\d+', g)) for g in re.findall(r'inds_contain!\(\s*\$indices\s*,\s*\[([^\]]*)\]', fl)})
        # which view unwraps which map
        need = {1: set(), 2: set()}
        for path, b in cr.bodies.items():
            if not _in_scope(path, module):
                continue
            st = impl_self_ty(b) if b.get('impl_of') else ''
            m = re.search(r'Ind((?:\d+_)*\d+)\b', st.split('<')[0]) if st else None
            if not m or 'Write' in st.split('<')[0]:
                continue
            cols = tuple(int(x) for x in m.group(1).split('_'))
            for x, parents in walk(b['tree']):
                if x.get('k') == 'field' and x['n'] in ('reverse_map1', 'reverse_map2'):
                    par_ms = [p_.get('m') for p_ in parents[-4:] if p_.get('k') == 'mcall']
                    # the access is followed by an unwrap on the Option (as_ref().unwrap() / as_mut().unwrap())
                    up = [p_ for p_ in reversed(parents) if p_.get('k') == 'mcall'][:3]
                    if any(p_['m'] == 'unwrap' for p_ in up):
                        need[int(x['n'][-1])].add(cols)
                        rep.functions.add(path)
        if not need[1] and not need[2]:
            raise Broken('L36: no view of %s unwraps a reverse map (anchor lost?)' % module)
        for k in (1, 2):
            for cols in sorted(need[k]):
                n += 1
                ok = cols in flag_sets[k - 1]
                rep.inst('L36', '%s: the views over columns %s unwrap reverse_map%d; flag %d of the macro mentions %s: %s' % (
                    macro_name, list(cols), k, k, sorted(map(list, flag_sets[k - 1])), ok))
                if not ok:
                    rep.viol('L36', macro_name, 'reverse-map-flag:%d:%s' % (k, '_'.join(map(str, cols))),
                             'the read view over the columns %s unwraps `reverse_map%d`, but the provider macro switches that map on only for the '
                             'index sets %s: a program that reads the relation through %s (and through no index that switches the map on) panics in '
                             '`Option::unwrap()` at run time' % (list(cols), k, sorted(map(list, flag_sets[k - 1])), list(cols)))
    return n


# ------------------------------------------------------------------ L37 / L38

def check_L37(ctx, rep, modules):
    """column order: where a ternary view destructures its key `(x0, x1, x2)` (or `(x1, x2)`) and hands two of the columns to the
    binary relation behind it (`contains(a, b)`, `insert(a, b)`, `add(a, b)`, `index_insert((a, b), ..)`), they are handed over in
    column order. The transitive relation is not symmetric: `contains(x2, x1)` asks about the converse pair."""
    cr = ctx.lib('ascent_byods_rels')
    n = 0
    for path, b in sorted(cr.bodies.items()):
        if not any(_in_scope(path, m) for m in modules) or b['name'].startswith('test'):
            continue
        pos = {}        # local id -> position in a destructured tuple
        def note_pat(p):
            if p.get('k') == 'tup':
                for i, q in enumerate(p['ps']):
                    if q.get('k') == 'bind':
                        pos[q['id']] = (id(p), i)
                    elif q.get('k') in ('ref', 'deref') and q.get('p', {}).get('k') == 'bind':
                        pos[q['p']['id']] = (id(p), i)
            elif p.get('k') in ('ref', 'deref'):
                note_pat(p['p'])
        for prm in b['params']:
            note_pat(prm)
        for x, _ in walk(b['tree']):
            if x.get('k') == 'let' and 'p' in x:
                note_pat(x['p'])
            if x.get('k') == 'closure':
                for q in x.get('ps', []):
                    note_pat(q)
            if x.get('k') == 'match':
                for a in x['arms']:
                    note_pat(a['p'])
        if len(pos) < 2:
            continue
        for x, _ in walk(b['tree']):
            if x.get('k') != 'mcall' or x['m'] not in ('contains', 'insert', 'add', 'contains_key', 'insert_if_not_present', 'index_insert', 'added_contains'):
                continue
            args = list(x['a'])
            if len(args) >= 1 and strip(args[0]).get('k') == 'tup':
                args = list(strip(args[0])['es'])
            if len(args) < 2:
                continue
            ids = []
            for a in args[:2]:
                r = root_local_(a)
                ids.append(pos.get(r) if r is not None else None)
            if None in ids or ids[0][0] != ids[1][0]:
                continue            # columns of one and the same destructured key only
            ids = [ids[0][1], ids[1][1]]
            n += 1
            ok = ids[0] < ids[1]
            rep.inst('L37', '%s: %s(col %d, col %d): in column order: %s' % (path, x['m'], ids[0], ids[1], ok))
            rep.functions.add(path)
            if not ok:
                rep.viol('L37', path, 'columns-swapped:' + x['m'],
                         'two columns of a destructured key are handed to `%s` in reverse column order (column %d before column %d): for a relation '
                         'that is not symmetric this asks about / stores the converse pair' % (x['m'], ids[0], ids[1]), loc=cr.loc(x))
    if n < 3:
        raise Broken('L37: only %d two-column calls over destructured keys found (3 counted on the tree; anchor lost?)' % n)


def root_local_(a):
    a = strip(a)
    while True:
        a = strip(a)
        k = a.get('k')
        if k in ('addr', 'cast'):
            a = a['e']; continue
        if k == 'unary' and a.get('op') == 'deref':
            a = a['e']; continue
        if k == 'mcall' and a['m'] in ('clone', 'borrow', 'to_owned'):
            a = a['r']; continue
        if k == 'path' and a.get('res') == 'local':
            return a['id']
        return None


def check_L38(ctx, rep, modules):
    """the keys of a two-column index are ordered pairs: `iter_all` of such a view enumerates a product of the two column domains. An
    unordered-pairs adaptor (`tuple_combinations`, `combinations`, `tuple_windows`) yields neither (x, x) nor both of (x, y), (y, x)."""
    cr = ctx.lib('ascent_byods_rels')
    n = 0
    BAD = ('Itertools::tuple_combinations', 'Itertools::combinations', 'Itertools::tuple_windows', 'Itertools::combinations_with_replacement',
           'Itertools::array_combinations')
    for path, b in sorted(cr.bodies.items()):
        if not any(_in_scope(path, m) for m in modules) or 'iter_all' not in b['name']:
            continue
        n += 1
        bad = [cname(callee(x)) for x, _ in walk(b['tree']) if x.get('k') in ('mcall', 'call') and callee(x) and cname(callee(x)).endswith(BAD)]
        rep.inst('L38', '%s: unordered-pairs adaptors: %s' % (path, [x.split('::')[-1] for x in bad] or 'none'))
        rep.functions.add(path)
        for x in bad:
            rep.viol('L38', path, 'unordered-pairs:' + x.split('::')[-1],
                     'the enumeration of an index whose keys are ordered pairs goes through `%s`: (x, x) and one of (x, y) / (y, x) are never '
                     'enumerated' % x.split('::')[-1])
    if n < 5:
        raise Broken('L38: only %d iter_all functions found in %s' % (n, modules))
