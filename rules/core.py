"""Shared plumbing of the checks: context (lazy fact loading), reports, known findings, evidence files."""
import glob, json, os, sys, time
from facts import Crate

VERIF = os.path.dirname(os.path.dirname(os.path.abspath(__file__)))
WORK = os.environ.get('VERIF_WORK') or os.path.join(VERIF, '.work')
EVID = os.environ.get('VERIF_EVIDENCE_DIR') or os.path.join(VERIF, 'evidence')


class Broken(Exception):
    """The check itself cannot give a verdict (anchor lost, count below floor, facts missing)."""


class Ctx:
    def __init__(self, fdir, meta, tier, log):
        self.fdir, self.meta, self.tier, self.log = fdir, meta, tier, log
        self._cache = {}

    def _load(self, sub, pattern):
        key = (sub, pattern)
        if key not in self._cache:
            paths = sorted(glob.glob(os.path.join(self.fdir, sub, pattern)))
            self._cache[key] = [self._crate(p) for p in paths]
        return self._cache[key]

    def _crate(self, path):
        if path not in self._cache:
            self._cache[path] = Crate(path)
        return self._cache[path]

    def lib(self, name):
        """The lib target of a workspace crate of /repo (ascent, ascent_base, ascent_macro, ascent_byods_rels)."""
        c = self._load('repo', name + '.lib.*.facts.json')
        c = [x for x in c if x.d['src'].endswith('/src/lib.rs')]
        if len(c) != 1:
            raise Broken('facts of workspace crate %s missing (%d files)' % (name, len(c)))
        return c[0]

    def repo_programs(self):
        """Every fact file of /repo targets that may contain ascent programs (examples, test targets)."""
        out = []
        for p in sorted(glob.glob(os.path.join(self.fdir, 'repo', '*.facts.json'))):
            b = os.path.basename(p)
            if b.startswith(('ascent_macro.', 'ascent_base.')):
                continue
            if b.startswith(('ascent.lib.', 'ascent_byods_rels.lib.')):
                continue
            out.append(self._crate(p))
        return out

    def corpus(self):
        return [self._crate(p) for p in sorted(glob.glob(os.path.join(self.fdir, 'corpus', '*.facts.json')))]


class Report:
    """Collects what one check run looked at and what it found."""
    def __init__(self, pid):
        self.pid = pid
        self.violations = []      # dicts: key, rule, where, msg, detail
        self.instances = {}       # rule -> list of instance descriptors (strings)
        self.notes = []
        self.functions = set()
        self.programs = set()
        self.call_sites = 0

    def inst(self, rule, desc):
        self.instances.setdefault(rule, []).append(desc)

    def viol(self, rule, where, construct, msg, detail=None, loc=None):
        """key has no line numbers: property|rule|where|construct"""
        key = '%s|%s|%s|%s' % (self.pid, rule, where, construct)
        for v in self.violations:
            if v['key'] == key:
                return
        self.violations.append({'key': key, 'rule': rule, 'where': where, 'construct': construct, 'msg': msg,
                                'detail': detail, 'loc': loc})

    def floor(self, rule, n_min, what=''):
        n = len(self.instances.get(rule, []))
        if n < n_min:
            # recorded, not raised: a run that found violations has a verdict; only a run that would otherwise pass is vacuous
            self.floor_failures = getattr(self, 'floor_failures', []) + [
                'rule %s matched %d instances, floor is %d (%s) - anchor lost?' % (rule, n, n_min, what)]


def load_known():
    """known_findings.txt: one finding per line.
       open:  property=<id> key=<property|rule|where|construct> :: <what fails>      (reported as KNOWN-FINDING, does not fail)
       fixed: property=<id> <commit> <what failed>                                    (suppresses nothing)"""
    p = os.path.join(VERIF, 'known_findings.txt')
    out = []
    if not os.path.exists(p):
        return out
    for line in open(p):
        line = line.strip()
        if not line or line.startswith('#'):
            continue
        if line.startswith('open:'):
            rest = line[len('open:'):].strip()
            head, _, what = rest.partition(' :: ')
            fields = dict(f.split('=', 1) for f in head.split() if '=' in f and not f.startswith('key='))
            key = head[head.index('key=') + 4:].strip() if 'key=' in head else ''
            out.append({'status': 'open', 'property': fields.get('property'), 'key': key, 'what': what.strip()})
        elif line.startswith('fixed:'):
            out.append({'status': 'fixed', 'line': line})
    return out


def finish(rep, tier, t0, level, explanation, assumptions, rule_text, samples, extra_cov=None):
    """Print verdict lines, write replay + evidence files; returns exit code."""
    known = {k['key']: k for k in load_known() if k.get('status') == 'open'}
    os.makedirs(EVID, exist_ok=True)
    os.makedirs(os.path.join(WORK, 'replay'), exist_ok=True)
    rc = 0
    n_viol = 0
    n_known = 0
    for v in rep.violations:
        if v['key'] in known:
            print('KNOWN-FINDING: property=%s %s: %s' % (rep.pid, v['key'], v['msg']))
            n_known += 1
            continue
        n_viol += 1
        rp = os.path.join(WORK, 'replay', '%s_%d.json' % (rep.pid, n_viol))
        json.dump(v, open(rp, 'w'), indent=1)
        print('  %s [%s] %s: %s%s' % (v['rule'], v['where'], v['construct'], v['msg'], (' @ ' + v['loc']) if v.get('loc') else ''))
        print('VIOLATION property=%s replay=%s' % (rep.pid, rp))
        rc = 1
    evaluations = sum(len(v) for v in rep.instances.values())
    distinct = len({(r, d) for r, v in rep.instances.items() for d in v})
    cov = {
        'explanation': explanation,
        'evaluations': evaluations,
        'distinct_nontrivial': distinct,
        'rule': rule_text,
        'samples': samples[:12] if samples else [{'rule': r, 'instance': v[0]} for r, v in list(rep.instances.items())[:12] if v],
        'rule_instances': {r: len(v) for r, v in sorted(rep.instances.items())},
        'functions': len(rep.functions),
        'programs': len(rep.programs),
        'call_sites': rep.call_sites,
        'known_findings_reported': n_known,
        'exhaustive': False,
    }
    if level == 'translation_validation':
        # programs whose expansion was validated / pairs compared; every mismatch found is reported as a violation
        cov['disagreements_checked'] = sum(len(v) for r, v in rep.instances.items() if r.startswith(('R1', 'R3', 'T.')))
    if extra_cov:
        cov.update(extra_cov)
    # samples: one of the longest instance descriptors per rule (more telling than the first)
    if not samples:
        cov['samples'] = [{'rule': r, 'instance': max(v, key=len)} for r, v in sorted(rep.instances.items()) if v][:14]
    ev = {
        'property_id': rep.pid, 'tier': tier, 'seed': int(os.environ.get('VERIF_SEED', '0') or 0), 'level': level,
        'coverage': cov, 'assumptions': assumptions, 'wall_s': round(time.time() - t0, 2), 'violations': n_viol,
    }
    json.dump(ev, open(os.path.join(EVID, rep.pid + '.json'), 'w'), indent=1)
    if rc == 0 and getattr(rep, 'floor_failures', None):
        for f in rep.floor_failures:
            print('CHECK-BROKEN property=%s: %s' % (rep.pid, f))
        rc = 2
    print('%s: %s  (%d rule instances over %d rules, %d functions, %d programs; %d known findings; %.1fs)' % (
        rep.pid, 'VIOLATED' if rc == 1 else ('BROKEN' if rc else 'ok'), evaluations, len(rep.instances), len(rep.functions), len(rep.programs), n_known,
        time.time() - t0))
    return rc
