"""L10 - wiring and change-flag dataflow of every `impl Lattice` / `impl BoundedLattice` (property C16).

What is decided (structural, for all values):
  P  polarity: inside join/join_mut only join-polar operations are delegated to components, inside meet/meet_mut only
     meet-polar ones; exactly inverted for the order-reversing wrappers (Dual - recognised by its swapped partial_cmp,
     std::cmp::Reverse - by definition); top/bottom likewise.
  Q  comparison-driven impls replace `self` by `other` exactly on the polarity-correct strict outcome of the comparison.
  R  every delegated `*_mut` call is executed unconditionally w.r.t. the other delegated results (no short-circuit) and its
     bool result reaches the return value.
  S  a path that assigns to `*self` does not return a definite `false`; a path that cannot mutate does not return a
     definite `true`.
The analysis is a path-enumerating abstract interpretation of the typed HIR over the abstract domain
{ordering outcome of self-vs-other} x {three-valued booleans with the set of delegated results or-ed into them}.
Nothing is executed."""
from facts import walk, callee
from tree import strip, root_local, lit_bool, cname, pat_bindings

ORDS = ('Less', 'Equal', 'Greater', 'None')
MIRROR = {'Less': 'Greater', 'Greater': 'Less', 'Equal': 'Equal', 'None': 'None'}
JOIN, MEET = 'join', 'meet'
POL = {'join': JOIN, 'join_mut': JOIN, 'meet': MEET, 'meet_mut': MEET}
FLIP = {JOIN: MEET, MEET: JOIN, 'top': 'bottom', 'bottom': 'top'}


class B:
    """three-valued boolean that remembers which delegated results are or-ed into it"""
    __slots__ = ('val', 'dels', 'unk')

    def __init__(self, val=None, dels=frozenset(), unk=False):
        self.val, self.dels, self.unk = val, frozenset(dels), unk

    def def_true(self):
        return self.val is True

    def def_false(self):
        return self.val is False and not self.dels and not self.unk

    @staticmethod
    def const(b):
        return B(b)

    @staticmethod
    def unknown():
        return B(False, (), True)

    def or_(self, o):
        if self.val is True or o.val is True:
            return B(True, self.dels | o.dels, False)
        return B(False, self.dels | o.dels, self.unk or o.unk)

    def not_(self):
        if self.def_true():
            return B(False)
        if self.def_false():
            return B(True)
        return B.unknown()


class St:
    def __init__(self, o):
        self.o = o
        self.env = {}
        self.self_ids = set()
        self.other_ids = set()
        self.assigned = False        # an assignment to a place rooted in self
        self.assigned_other = False  # ... whose value is rooted in other
        self.may_mut = False         # &mut access to self through a call
        self.delegs = set()
        self.cmp_seen = False
        self.sc_viol = []            # delegated calls evaluated under a short-circuit / data-dependent condition
        self.late_snap = []          # 'before' snapshots of self taken after self was already mutated

    def copy(self):
        s = St(self.o)
        s.env = dict(self.env)
        s.self_ids = set(self.self_ids)
        s.other_ids = set(self.other_ids)
        s.assigned, s.assigned_other, s.may_mut = self.assigned, self.assigned_other, self.may_mut
        s.delegs = set(self.delegs)
        s.cmp_seen = self.cmp_seen
        s.sc_viol = list(self.sc_viol)
        s.late_snap = list(self.late_snap)
        return s


class Interp:
    def __init__(self, cr, body, method):
        self.cr, self.body, self.method = cr, body, method
        self.deleg_nodes = {}
        self.paths_limit = 4000
        self.npaths = 0

    def side(self, n, st):
        r = root_local(n)
        if r is None:
            return None
        if r['id'] in st.self_ids:
            return 'self'
        if r['id'] in st.other_ids:
            return 'other'
        return None

    def mentions(self, n, ids):
        for x, _ in walk(n):
            if x.get('k') == 'path' and x.get('res') == 'local' and x['id'] in ids:
                return True
        return False

    # ---- pattern binding with alias propagation
    def bind(self, pat, scrut, st, val=None):
        sides = None
        if scrut is not None:
            s = strip(scrut)
            if s.get('k') == 'tup' and pat.get('k') == 'tup' and len(s['es']) == len(pat['ps']):
                for sp, pp in zip(s['es'], pat['ps']):
                    self.bind(pp, sp, st)
                return
            sides = self.side(s, st)
        for b in pat_bindings(pat):
            if sides == 'self':
                st.self_ids.add(b['id'])
            elif sides == 'other':
                st.other_ids.add(b['id'])
            st.env[b['id']] = val if (val is not None and pat.get('k') == 'bind') else None

    def pat_accepts_ord(self, pat, o, optional):
        """does pattern accept ordering outcome o (for cmp: optional False, partial_cmp: optional True)?  True/False/None"""
        k = pat.get('k')
        if k in ('wild', 'bind'):
            return True
        if k == 'or':
            rs = [self.pat_accepts_ord(p, o, optional) for p in pat['ps']]
            if any(r is True for r in rs):
                return True
            if all(r is False for r in rs):
                return False
            return None
        if k == 'ts':  # Some(p)
            d = pat['path'].get('d', '')
            if d.endswith('Some') and optional:
                if o == 'None':
                    return False
                return self.pat_accepts_ord(pat['ps'][0], o, False)
            return None
        if k == 'expr' and 'path' in pat:
            d = pat['path'].get('d', '')
            last = d.split('::')[-1]
            if last == 'None' and optional:
                return o == 'None'
            if last in ('Less', 'Equal', 'Greater') and not optional:
                return o == last
            return None
        return None

    # ---- expression evaluation: returns list of (value, state, ctrl)
    def ev(self, n, st):
        self.npaths += 1
        if self.npaths > self.paths_limit:
            raise RuntimeError('path explosion')
        n = strip(n)
        k = n.get('k')
        if k == 'lit':
            b = lit_bool(n)
            return [(B.const(b) if b is not None else None, st, None)]
        if k == 'path':
            if n.get('res') == 'local':
                return [(st.env.get(n['id']), st, None)]
            return [(None, st, None)]
        if k == 'block':
            return self.ev_block(n, st)
        if k == 'unary':
            outs = []
            for v, s, c in self.ev(n['e'], st):
                if c:
                    outs.append((v, s, c)); continue
                if n['op'] == 'not' and isinstance(v, B):
                    outs.append((v.not_(), s, None))
                elif n['op'] == 'deref':
                    outs.append((v, s, None))
                else:
                    outs.append((None, s, None))
            return outs
        if k == 'addr':
            return self.ev(n['e'], st)
        if k == 'binary':
            return self.ev_binary(n, st)
        if k in ('call', 'mcall'):
            return self.ev_call(n, st)
        if k == 'assign':
            outs = []
            for v, s, c in self.ev(n['r'], st):
                if c:
                    outs.append((v, s, c)); continue
                sd = self.side(n['l'], s)
                lhs = strip(n['l'])
                if sd == 'self':
                    s.assigned = True
                    if self.mentions(n['r'], s.other_ids):
                        s.assigned_other = True
                elif lhs.get('k') == 'path' and lhs.get('res') == 'local':
                    s.env[lhs['id']] = v
                outs.append((None, s, None))
            return outs
        if k == 'assignop':
            outs = []
            for v, s, c in self.ev(n['r'], st):
                if c:
                    outs.append((v, s, c)); continue
                lhs = strip(n['l'])
                if self.side(n['l'], s) == 'self':
                    s.assigned = True
                elif lhs.get('k') == 'path' and lhs.get('res') == 'local':
                    old = s.env.get(lhs['id'])
                    if n['op'] == '|=' and isinstance(old, B) and isinstance(v, B):
                        s.env[lhs['id']] = old.or_(v)
                    else:
                        s.env[lhs['id']] = B.unknown() if isinstance(old, B) else None
                outs.append((None, s, None))
            return outs
        if k == 'if':
            return self.ev_if(n, st)
        if k == 'match':
            return self.ev_match(n, st)
        if k == 'loop':
            outs = []
            for v, s, c in self.ev_block(n['b'], st):
                if c in ('break', 'continue', None):
                    outs.append((None, s, None))
                else:
                    outs.append((v, s, c))
            return outs
        if k == 'break':
            return [(None, st, 'break')]
        if k == 'continue':
            return [(None, st, 'continue')]
        if k == 'ret':
            if 'e' in n:
                return [(v, s, c or 'return') for v, s, c in self.ev(n['e'], st)]
            return [(None, st, 'return')]
        if k == 'closure':
            return [(None, st, None)]
        if k == 'let':  # let-expression outside an if condition
            outs = []
            for v, s, c in self.ev(n['i'], st):
                self.bind(n['p'], n['i'], s)
                outs.append((B.unknown(), s, c))
            return outs
        # generic: evaluate children left to right for their effects
        states = [st]
        from facts import children
        for ch in children(n):
            nxt = []
            for s in states:
                for v, s2, c in self.ev(ch, s):
                    if c:
                        return [(v, s2, c)]
                    nxt.append(s2)
            states = nxt
        return [(None, s, None) for s in states]

    def ev_block(self, n, st):
        states = [st]
        for stmt in n['ss']:
            nxt = []
            done = []
            for s in states:
                sk = stmt['k']
                if sk == 'let':
                    if 'i' in stmt:
                        for v, s2, c in self.ev(stmt['i'], s):
                            if c:
                                done.append((v, s2, c)); continue
                            self.bind(stmt['p'], stmt['i'], s2, v)
                            if stmt['p'].get('k') == 'bind':
                                s2.env[stmt['p']['id']] = v
                                i0 = strip(stmt['i'])
                                # a snapshot of (part of) self, e.g. `let self_len = self.0.len()`
                                if v is None and i0.get('k') == 'mcall' and self.side(i0['r'], s2) == 'self' and not (self.cr.ty(i0) or '').startswith('&'):
                                    s2.env[stmt['p']['id']] = ('snap', bool(s2.assigned or s2.may_mut), stmt)
                            nxt.append(s2)
                    else:
                        self.bind(stmt['p'], None, s)
                        nxt.append(s)
                elif sk in ('expr', 'semi'):
                    for v, s2, c in self.ev(stmt['e'], s):
                        if c:
                            done.append((v, s2, c))
                        else:
                            nxt.append(s2)
                else:
                    nxt.append(s)
            states = nxt
            if done:
                # paths that left the block early
                return done + self._rest(n, stmt, states)
        outs = []
        for s in states:
            if 'e' in n:
                outs.extend(self.ev(n['e'], s))
            else:
                outs.append((None, s, None))
        return outs

    def _rest(self, blk, after_stmt, states):
        idx = blk['ss'].index(after_stmt)
        sub = dict(blk)
        sub['ss'] = blk['ss'][idx + 1:]
        outs = []
        for s in states:
            outs.extend(self.ev_block(sub, s))
        return outs

    def cmp_outcome(self, l, r, st):
        sl, sr = self.side(l, st), self.side(r, st)
        if {sl, sr} == {'self', 'other'}:
            st.cmp_seen = True
            return st.o if sl == 'self' else MIRROR[st.o]
        return None

    def ev_binary(self, n, st):
        op = n['op']
        if op in ('<', '<=', '>', '>='):   # order tests only; `==` on payloads is not an order comparison
            o = self.cmp_outcome(n['l'], n['r'], st)
            if o is not None:
                res = {'<': o == 'Less', '<=': o in ('Less', 'Equal'), '>': o == 'Greater', '>=': o in ('Greater', 'Equal'),
                       '==': o == 'Equal', '!=': o != 'Equal'}[op]
                return [(B.const(res), st, None)]
        if op in ('!=', '==', '<', '>', '<=', '>='):
            for side_ in (n['l'], n['r']):
                l_ = strip(side_)
                if l_.get('k') == 'path' and l_.get('res') == 'local':
                    v_ = st.env.get(l_['id'])
                    if isinstance(v_, tuple) and v_ and v_[0] == 'snap' and v_[1]:
                        st.late_snap.append(v_[2])
        outs = []
        for lv, s, c in self.ev(n['l'], st):
            if c:
                outs.append((lv, s, c)); continue
            if op in ('||', '&&') and isinstance(lv, B):
                short = lv.def_true() if op == '||' else lv.def_false()
                if short:
                    outs.append((lv, s, None)); continue
                definite = lv.def_true() or lv.def_false()
                before = set(s.delegs)
                for rv, s2, c2 in self.ev(n['r'], s):
                    if not definite:
                        for d in s2.delegs - before:
                            s2.sc_viol.append(d)
                    if isinstance(rv, B):
                        outs.append((lv.or_(rv) if op == '||' else (rv if lv.def_true() else B.unknown()), s2, c2))
                    else:
                        outs.append((B.unknown(), s2, c2))
                continue
            for rv, s2, c2 in self.ev(n['r'], s):
                if op == '|' and isinstance(lv, B) and isinstance(rv, B):
                    outs.append((lv.or_(rv), s2, c2))
                elif op in ('<', '<=', '>', '>=', '==', '!=', '&', '^', '&&', '||'):
                    outs.append((B.unknown(), s2, c2))
                else:
                    outs.append((None, s2, c2))
        return outs

    def ev_call(self, n, st):
        c = callee(n)
        d = cname(c)
        last = d.split('::')[-1]
        is_lat = d.endswith(('Lattice::join_mut', 'Lattice::meet_mut'))
        parts = ([n['r']] if n['k'] == 'mcall' else []) + list(n['a'])
        if n['k'] == 'call' and callee(n) is None:
            parts = [n['f']] + parts
        # evaluate sub-expressions for effects
        states = [st]
        for p in parts:
            nxt = []
            for s in states:
                for v, s2, cc in self.ev(p, s):
                    if cc:
                        return [(v, s2, cc)]
                    nxt.append(s2)
            states = nxt
        outs = []
        for s in states:
            recv = parts[0] if parts else None
            if is_lat and recv is not None and self.side(recv, s) == 'self':
                did = id(n)
                self.deleg_nodes[did] = n
                s.delegs.add(did)
                s.may_mut = True
                outs.append((B(False, {did}), s, None))
                continue
            if last in ('cmp', 'partial_cmp') and len(parts) == 2:
                o = self.cmp_outcome(parts[0], parts[1], s)
                if o is not None:
                    outs.append((('optord' if last == 'partial_cmp' else 'ord', o), s, None))
                    continue
            # &mut access to self through a call
            for i, p in enumerate(parts):
                if self.side(p, s) == 'self':
                    ps = strip(p)
                    t = self.cr.ty(ps) or ''
                    rt = self.cr.s(n.get('rt')) if (i == 0 and n['k'] == 'mcall' and n.get('rt') is not None) else t
                    if rt.startswith('&mut') or t.startswith('&mut') or (ps.get('k') == 'addr' and ps.get('mut')):
                        s.may_mut = True
            ret_t = self.cr.ty(n) or ''
            outs.append((B.unknown() if ret_t == 'bool' else None, s, None))
        return outs

    def ev_if(self, n, st):
        cond = strip(n['c'])
        outs = []
        if cond.get('k') == 'let':
            for v, s, c in self.ev(cond['i'], st):
                if c:
                    outs.append((v, s, c)); continue
                s_then = s.copy()
                self.bind(cond['p'], cond['i'], s_then)
                outs.extend(self.ev(n['th'], s_then))
                s_else = s.copy()
                if 'el' in n:
                    outs.extend(self.ev(n['el'], s_else))
                else:
                    outs.append((None, s_else, None))
            return outs
        for v, s, c in self.ev(cond, st):
            if c:
                outs.append((v, s, c)); continue
            take_then = take_else = True
            if isinstance(v, B):
                if v.def_true():
                    take_else = False
                elif v.def_false():
                    take_then = False
            if take_then:
                s1 = s.copy() if take_else else s
                # inside a then-branch of `if L` the local L is known true
                cl = strip(cond)
                if cl.get('k') == 'path' and cl.get('res') == 'local' and isinstance(v, B) and not v.def_true():
                    s1.env[cl['id']] = B(True, v.dels)
                before = set(s1.delegs)
                for v2, s2, c2 in self.ev(n['th'], s1):
                    if take_else and isinstance(v, B) and v.dels:
                        for dd in s2.delegs - before:
                            s2.sc_viol.append(dd)
                    outs.append((v2, s2, c2))
            if take_else:
                if 'el' in n:
                    before = set(s.delegs)
                    for v2, s2, c2 in self.ev(n['el'], s):
                        if take_then and isinstance(v, B) and v.dels:
                            for dd in s2.delegs - before:
                                s2.sc_viol.append(dd)
                        outs.append((v2, s2, c2))
                else:
                    outs.append((None, s, None))
        return outs

    def ev_match(self, n, st):
        outs = []
        for v, s, c in self.ev(n['e'], st):
            if c:
                outs.append((v, s, c)); continue
            known = isinstance(v, tuple) and v[0] in ('ord', 'optord')
            remaining = True
            for arm in n['arms']:
                if not remaining:
                    break
                if known:
                    acc = self.pat_accepts_ord(arm['p'], v[1], v[0] == 'optord')
                    if acc is False:
                        continue
                    if acc is True and 'g' not in arm:
                        remaining = False
                s1 = s.copy()
                self.bind(arm['p'], n['e'], s1)
                if 'g' in arm:
                    for gv, s2, gc in self.ev(arm['g'], s1):
                        outs.extend(self.ev(arm['b'], s2))
                else:
                    outs.extend(self.ev(arm['b'], s1))
        return outs


def impl_self_ty(body):
    io = body.get('impl_of') or ''
    if io.startswith('<') and ' as ' in io:
        return io[1:io.rindex(' as ')]
    if '<impl ' in io and ' for ' in io:
        return io[io.index(' for ') + 5:io.rindex('>')]
    return io


def is_inverting(cr, self_ty, rep):
    """Order-reversing wrapper? std::cmp::Reverse by definition; workspace types by their swapped partial_cmp."""
    head = self_ty.split('<')[0]
    if head == 'std::cmp::Reverse':
        return True, 'std::cmp::Reverse (by definition)'
    for b in cr.bodies.values():
        if b['name'] == 'partial_cmp' and (b.get('trait_of') or '').endswith('cmp::PartialOrd') and impl_self_ty(b) == self_ty:
            ps = [p.get('id') for p in b['params']]
            for x, _ in walk(b['tree']):
                c = callee(x)
                if c and cname(c).endswith('PartialOrd::partial_cmp') and x['k'] == 'mcall':
                    r, a = root_local(x['r']), root_local(x['a'][0])
                    if r and a and len(ps) == 2 and r['id'] == ps[1] and a['id'] == ps[0]:
                        return True, 'partial_cmp passes (other, self)'
    return False, ''


def check_ord_agreement(cr, rep):
    """L10.O: a type with hand-written PartialOrd::partial_cmp and Ord::cmp orders its operands the same way in both (either both
    delegate (self, other) or both the reversed (other, self)): tuple / OrdLattice lattices use Ord, Dual's Lattice impl PartialOrd."""
    def direction(b, meth_suffix):
        ps = [p.get('id') for p in b['params']]
        for x, _ in walk(b['tree']):
            c = callee(x)
            if c and cname(c).endswith(meth_suffix) and x['k'] == 'mcall' and x['a']:
                r, a = root_local(x['r']), root_local(x['a'][0])
                if r and a and len(ps) == 2:
                    if r['id'] == ps[0] and a['id'] == ps[1]:
                        return 'self,other'
                    if r['id'] == ps[1] and a['id'] == ps[0]:
                        return 'other,self'
        return None
    by_ty = {}
    for b in cr.bodies.values():
        tr = b.get('trait_of') or ''
        if b['name'] == 'partial_cmp' and tr.endswith('cmp::PartialOrd'):
            by_ty.setdefault(impl_self_ty(b), {})['partial_cmp'] = (b, direction(b, 'PartialOrd::partial_cmp'))
        if b['name'] == 'cmp' and tr.endswith('cmp::Ord'):
            by_ty.setdefault(impl_self_ty(b), {})['cmp'] = (b, direction(b, 'Ord::cmp'))
    n = 0
    for ty, d in sorted(by_ty.items()):
        if 'cmp' in d and 'partial_cmp' in d and d['cmp'][1] and d['partial_cmp'][1]:
            n += 1
            ok = d['cmp'][1] == d['partial_cmp'][1]
            rep.inst('L10.O', '%s: partial_cmp compares (%s), cmp compares (%s): %s' % (ty, d['partial_cmp'][1], d['cmp'][1], ok))
            if not ok:
                rep.viol('L10.O', d['cmp'][0]['path'], 'ord-disagrees-with-partialord',
                         'Ord::cmp of `%s` compares (%s) but PartialOrd::partial_cmp compares (%s): lattices built on Ord (tuples, OrdLattice) '
                         'and on PartialOrd see opposite orders' % (ty, d['cmp'][1], d['partial_cmp'][1]))
    return n


def check_bound_tests(cr, rep):
    """L10.B - a capacity-bounded lattice (const generic bound) widens to its top exactly when the MERGED value exceeds the bound:
    every comparison against the const parameter tests the size (`len()`) of ONE collection. A test on a sum of sizes
    (`a.len() + b.len() > BOUND`) over-counts shared elements: overlapping operands whose union fits are widened, join is then
    neither idempotent nor associative and `join_mut` disagrees with `join`."""
    n = 0
    for path, b in sorted(cr.bodies.items()):
        if 'lattice' not in path:
            continue
        for x, parents in walk(b['tree']):
            if x.get('k') != 'binary' or x.get('op') not in ('>', '>=', '<', '<=', '==', '!='):
                continue
            l, r = strip(x['l']), strip(x['r'])

            def is_const_param(e):
                return e.get('k') == 'path' and (e.get('dk') == 'ConstParam' or (e.get('res') == 'def' and str(e.get('d', '')).split('::')[-1].isupper() and 'ConstParam' in str(e.get('dk', ''))))
            if is_const_param(l):
                other = r
            elif is_const_param(r):
                other = l
            else:
                continue
            n += 1
            o = other
            while o.get('k') in ('cast', 'addr') or (o.get('k') == 'unary' and o.get('op') == 'deref'):
                o = strip(o['e'])
            ok = o.get('k') == 'mcall' and o['m'] in ('len', 'count') and not any(y.get('k') == 'binary' for y, _ in walk(o['r']))
            rep.inst('L10.B', '%s: bound test `%s` compares the size of one collection: %s' % (path, (x.get('snip') or '')[:60].replace('\n', ' '), ok))
            rep.functions.add(path)
            if not ok:
                rep.viol('L10.B', path, 'bound-test-not-on-merged-size',
                         'the bound is compared with `%s`, not with the size of the merged collection: operands that share elements are widened '
                         'to top although their union fits (join no longer idempotent / associative, join_mut disagrees with join)' % (other.get('snip') or '')[:70].replace('\n', ' '),
                         loc=cr.loc(x))
    return n


def check_L10(ctx, rep):
    cr = ctx.lib('ascent_base')
    if check_bound_tests(cr, rep) < 3:
        from core import Broken
        raise Broken('L10.B: fewer than 3 comparisons against a const generic bound found (BoundedSet expected)')
    if check_no_short_circuit_iteration(cr, rep) < 20:
        from core import Broken
        raise Broken('L10.R2: fewer than 20 delegated *_mut calls found in the Lattice impls')
    if check_set_order(cr, rep) < 2:
        from core import Broken
        raise Broken('L10.SO: Set::partial_cmp with a Less and a Greater answer not found')
    if check_flag_across_swap(cr, rep) < 1:
        from core import Broken
        raise Broken('L10.W: no *_mut operation that swaps the receiver found (Set::join_mut expected)')
    if check_partial_cmp_propagation(cr, rep) < 20:
        from core import Broken
        raise Broken('L10.PO: fewer than 20 intermediate comparisons found in the hand-written partial_cmp impls of the lattice module')
    if check_case_table(cr, rep) < 64:
        from core import Broken
        raise Broken('L10.C: fewer than 4 x 16 case-table entries of ConstPropagation decided')
    if check_ord_agreement(cr, rep) < 1:
        from core import Broken
        raise Broken('no type with hand-written partial_cmp and cmp found (Dual expected)')
    lat_bodies = [b for b in cr.bodies.values() if (b.get('trait_of') or '').endswith('lattice::Lattice')]
    bl_bodies = [b for b in cr.bodies.values() if (b.get('trait_of') or '').endswith('lattice::BoundedLattice')]
    impls = sorted({b['impl_of'] for b in lat_bodies if b.get('impl_of')})
    for io in impls:
        rep.inst('L10.impl', io)
    inv_cache = {}
    inverting_found = []
    for b in lat_bodies + bl_bodies:
        if not b.get('impl_of'):
            continue  # the trait's own provided methods are handled below
        st = impl_self_ty(b)
        if st not in inv_cache:
            inv_cache[st] = is_inverting(cr, st, rep)
            if inv_cache[st][0]:
                inverting_found.append(st)
        inv = inv_cache[st][0]
        m = b['name']
        rep.functions.add(b['path'])
        # ---- P: polarity of every delegated lattice operation / std min-max
        if m in POL or m in ('top', 'bottom'):
            want_base = POL.get(m, m)
            for x, _ in walk(b['tree']):
                c = callee(x)
                if not c:
                    continue
                d = cname(c)
                last = d.split('::')[-1]
                got = None
                if d.endswith(('Lattice::join', 'Lattice::join_mut', 'Lattice::meet', 'Lattice::meet_mut')):
                    got = POL[last]
                elif d.endswith(('cmp::Ord::max', 'cmp::max')):
                    got = JOIN
                elif d.endswith(('cmp::Ord::min', 'cmp::min')):
                    got = MEET
                elif d.endswith(('BoundedLattice::top', 'BoundedLattice::bottom')):
                    got = last
                if got is None:
                    continue
                if (got in (JOIN, MEET)) != (want_base in (JOIN, MEET)):
                    continue
                # the operand type: same type as Self => no inversion (delegation to a sibling method)
                if x['k'] == 'mcall':
                    rt = (cr.s(x.get('rt')) or '').replace('&mut ', '').replace('&', '')
                else:
                    rt = (cr.s(c.get('self')) or '') if c.get('self') is not None else ''
                same = (rt == st)
                want = FLIP[want_base] if (inv and not same) else want_base
                rep.inst('L10.P', '%s: %s on %s' % (b['path'], last, rt or '?'))
                rep.call_sites += 1
                if got != want:
                    rep.viol('L10.P', b['path'], last + ' on ' + (rt or '?'),
                             '%s delegates to %s (%s-polar) but %s polarity is required%s' % (
                                 m, last, got, want, ' (order-reversing wrapper)' if inv else ''), loc=cr.loc(x))
            # extremal constants
            if m in ('top', 'bottom'):
                for x, _ in walk(b['tree']):
                    if x.get('k') == 'path' and x.get('res') == 'def':
                        last = x.get('d', '').split('::')[-1]
                        bad = None
                        if last in ('MIN', 'MAX'):
                            want = {'top': 'MAX', 'bottom': 'MIN'}[FLIP[m] if inv else m]
                            rep.inst('L10.P', '%s: const %s' % (b['path'], last))
                            if last != want:
                                bad = last
                        if last in ('Top', 'Bottom'):
                            want = {'top': 'Top', 'bottom': 'Bottom'}[FLIP[m] if inv else m]
                            rep.inst('L10.P', '%s: ctor %s' % (b['path'], last))
                            if last != want:
                                bad = last
                        if bad:
                            rep.viol('L10.P', b['path'], 'const ' + bad, '%s() yields %s' % (m, bad), loc=cr.loc(x))
                    lb = lit_bool(x) if x.get('k') == 'lit' else None
                    if lb is not None and st == 'bool':
                        rep.inst('L10.P', '%s: literal %s' % (b['path'], lb))
                        if lb != (m == 'top'):
                            rep.viol('L10.P', b['path'], 'literal', '%s() of bool yields %s' % (m, lb), loc=cr.loc(x))
        # ---- Q R S: path analysis of the *_mut methods
        if m in ('join_mut', 'meet_mut'):
            analyse_mut(cr, b, m, rep)
    # the provided methods of the trait itself: join = join_mut; self
    for b in cr.bodies.values():
        if b.get('trait_of', '') and b['trait_of'].endswith('lattice::Lattice') and not b.get('impl_of') and b['name'] in POL:
            rep.functions.add(b['path'])
            for x, _ in walk(b['tree']):
                c = callee(x)
                if c and cname(c).split('::')[-1] in POL and 'Lattice::' in cname(c):
                    got = POL[cname(c).split('::')[-1]]
                    rep.inst('L10.P', '%s (provided): %s' % (b['path'], cname(c)))
                    if got != POL[b['name']]:
                        rep.viol('L10.P', b['path'], cname(c), 'provided method %s delegates to %s' % (b['name'], cname(c)), loc=cr.loc(x))
    rep.notes.append('order-reversing wrappers recognised: %s' % ', '.join(sorted(inverting_found)))
    # floors: counted on the pinned tree
    rep.floor('L10.impl', 47, 'impl Lattice blocks in ascent_base')
    rep.floor('L10.P', 150, 'polarity call sites')
    rep.floor('L10.paths', 200, 'paths through *_mut methods')
    if len(inverting_found) < 2:
        from core import Broken
        raise Broken('expected the two order-reversing wrappers (Dual, Reverse), recognised: %r' % inverting_found)


def analyse_mut(cr, b, m, rep):
    params = b['params']
    if len(params) != 2 or params[0].get('k') != 'bind' or params[1].get('k') != 'bind':
        rep.viol('L10.shape', b['path'], 'params', 'unrecognised parameter shape of %s' % m)
        return
    want_ord = 'Less' if m == 'join_mut' else 'Greater'
    for o in ORDS:
        it = Interp(cr, b, m)
        st = St(o)
        st.self_ids.add(params[0]['id'])
        st.other_ids.add(params[1]['id'])
        try:
            outs = it.ev(b['tree'], st)
        except RuntimeError:
            rep.viol('L10.shape', b['path'], 'paths', 'path explosion while analysing %s' % m)
            return
        for v, s, c in outs:
            rep.inst('L10.paths', '%s|%s|assigned=%s,delegs=%d,ret=%s' % (
                b['path'], o, s.assigned, len(s.delegs),
                'T' if isinstance(v, B) and v.def_true() else 'F' if isinstance(v, B) and v.def_false() else '?'))
            where = b['path']
            # T: "changed" computed against a snapshot that was taken after self had already been modified
            for stmt in s.late_snap:
                rep.viol('L10.T', where, 'late-snapshot',
                         'the change flag compares self with a "before" value (`%s`) that is recorded after self was already modified '
                         '(e.g. after a swap): the comparison no longer tells whether the receiver changed' % stmt['p'].get('n'),
                         loc=cr.loc(stmt['i']))
            # R: short-circuit / conditional evaluation of delegated calls
            for d in s.sc_viol:
                rep.viol('L10.R', where, 'conditional-delegation',
                         'a delegated %s is only evaluated depending on the result of another one (short-circuit / branch): '
                         'components after the first change are not updated' % m, loc=cr.loc(it.deleg_nodes[d]))
            # R: result flows to the return value
            if isinstance(v, B):
                if not v.def_true():
                    for d in s.delegs:
                        if d not in v.dels:
                            rep.viol('L10.R', where, 'dropped-result',
                                     'the bool result of a delegated %s does not reach the return value' % m,
                                     loc=cr.loc(it.deleg_nodes[d]))
            elif s.delegs:
                rep.viol('L10.R', where, 'dropped-result', 'delegated results do not reach the (non-bool?) return value')
            # S: definite contradictions
            if isinstance(v, B):
                if s.assigned and v.def_false():
                    rep.viol('L10.S', where, 'assign-returns-false', 'a path assigns to *self but returns false')
                if (not s.assigned) and (not s.may_mut) and (not s.delegs) and v.def_true():
                    rep.viol('L10.S', where, 'true-without-change', 'a path that cannot change self returns true')
            # Q: comparison direction
            if s.cmp_seen:
                rep.inst('L10.Q', '%s|%s' % (b['path'], o))
                if s.assigned_other and o not in (want_ord, 'None'):
                    rep.viol('L10.Q', where, 'replace-on-' + o,
                             '%s replaces self by other when self is %s other' % (m, o))
                if o == want_ord and not s.assigned_other and not s.delegs:
                    rep.viol('L10.Q', where, 'no-replace-on-' + o,
                             '%s keeps self although self is %s other' % (m, o))


# ------------------------------------------------------------------ L10.C  case table of a flat lattice

def check_case_table(cr, rep):
    """`ConstPropagation<T>` is the flat lattice Bottom < Constant(c) < Top; its four operations are `match (self, other)` tables over
    the three constructors in which the payload is touched only through `==`. The table is decided by case analysis over the
    abstract carrier {Bottom, Constant(a), Constant(b), Top} (a != b): for each of the 16 pairs the first arm whose pattern and
    guard accept the pair is taken, its effect is read off (value assigned to / returned for the receiver, the returned flag), and
    compared with the least upper / greatest lower bound of the flat order and with "flag <=> receiver changed"."""
    from core import Broken
    D = ['Bottom', ('Constant', 'a'), ('Constant', 'b'), 'Top']

    def lub(s, o):
        if s == 'Bottom':
            return o
        if o == 'Bottom':
            return s
        if s == 'Top' or o == 'Top':
            return 'Top'
        return s if s == o else 'Top'

    def glb(s, o):
        if s == 'Top':
            return o
        if o == 'Top':
            return s
        if s == 'Bottom' or o == 'Bottom':
            return 'Bottom'
        return s if s == o else 'Bottom'

    class Unrec(Exception):
        pass

    def ctor_of(path):
        d = (path or {}).get('d') or ''
        for c in ('Bottom', 'Top', 'Constant'):
            if d.endswith('::' + c):
                return c
        return None

    def pmatch(p, v, env):
        k = p.get('k')
        if k == 'wild':
            return True
        if k == 'bind':
            env[p['id']] = v
            return pmatch(p['sub'], v, env) if 'sub' in p else True
        if k in ('ref', 'deref', 'box'):
            return pmatch(p['p'], v, env)
        if k == 'or':
            return any(pmatch(q, v, env) for q in p['ps'])
        if k == 'expr':
            c = ctor_of(p.get('path'))
            if c is None:
                raise Unrec('pattern')
            return v == c
        if k == 'ts':
            c = ctor_of(p.get('path'))
            if c != 'Constant' or len(p['ps']) != 1:
                raise Unrec('pattern')
            if not (isinstance(v, tuple) and v[0] == 'Constant'):
                return False
            return pmatch(p['ps'][0], ('payload', v[1]), env)
        raise Unrec('pattern kind %s' % k)

    def ev(e, env, state):
        """value of an expression; state['self'] is updated by `*this = ..`"""
        e = strip(e)
        k = e.get('k')
        while k in ('addr',) or (k == 'unary' and e.get('op') == 'deref') or (k == 'mcall' and e.get('m') in ('clone', 'borrow')):
            e = strip(e['e'] if k != 'mcall' else e['r']); k = e.get('k')
        if k == 'lit':
            if e['v'] in ('true', 'false'):
                return e['v'] == 'true'
            raise Unrec('literal')
        if k == 'path':
            if e.get('res') == 'local':
                if e['id'] not in env:
                    raise Unrec('local %s' % e.get('n'))
                return env[e['id']]
            c = ctor_of(e)
            if c in ('Bottom', 'Top'):
                return c
            raise Unrec('path')
        if k == 'call':
            c = ctor_of(strip(e['f'])) if strip(e['f']).get('k') == 'path' else None
            if c == 'Constant' and len(e['a']) == 1:
                a = ev(e['a'][0], env, state)
                if isinstance(a, tuple) and a[0] == 'payload':
                    return ('Constant', a[1])
            raise Unrec('call')
        if k == 'binary' and e['op'] in ('==', '!='):
            l, r = ev(e['l'], env, state), ev(e['r'], env, state)
            if not (isinstance(l, tuple) and isinstance(r, tuple)):
                raise Unrec('comparison')
            return (l == r) == (e['op'] == '==')
        if k == 'if':
            c = ev(e['c'], env, state)
            if not isinstance(c, bool):
                raise Unrec('condition')
            if c:
                return ev(e['th'], env, state)
            if 'el' not in e:
                raise Unrec('if without else')
            return ev(e['el'], env, state)
        if k == 'block':
            for s in e['ss']:
                if s['k'] == 'item':
                    continue
                if s['k'] not in ('semi', 'expr'):
                    raise Unrec('statement')
                x = strip(s['e'])
                if x.get('k') != 'assign':
                    raise Unrec('statement')
                l = strip(x['l'])
                if not (l.get('k') == 'unary' and l['op'] == 'deref' and strip(l['e']).get('k') == 'path' and strip(l['e'])['id'] in state['self_ids']):
                    raise Unrec('assignment target')
                state['self'] = ev(x['r'], env, state)
            if 'e' not in e:
                raise Unrec('block without value')
            return ev(e['e'], env, state)
        raise Unrec('expression kind %s' % k)

    n = 0
    for path, b in sorted(cr.bodies.items()):
        if 'constant_propagation::ConstPropagation<T> as lattice::Lattice>::' not in path or b['name'] not in ('join_mut', 'meet_mut', 'join', 'meet'):
            continue
        rep.functions.add(path)
        t = strip(b['tree'])
        m = strip(t['e']) if t.get('k') == 'block' and 'e' in t else t
        if m.get('k') != 'match' or strip(m['e']).get('k') != 'tup':
            raise Broken('L10.C: %s is not a match over (self, other)' % path)
        want = lub if b['name'].startswith('join') else glb
        mut = b['name'].endswith('_mut')
        try:
            for s in D:
                for o in D:
                    hit = None
                    for a in m['arms']:
                        env = {}
                        ps = a['p']['ps'] if a['p'].get('k') == 'tup' else None
                        if ps is None or len(ps) != 2:
                            raise Unrec('arm pattern')
                        if not (pmatch(ps[0], s, env) and pmatch(ps[1], o, env)):
                            continue
                        self_ids = {bb['id'] for bb in pat_bindings(ps[0]) if env.get(bb['id']) == s and not (isinstance(env.get(bb['id']), tuple) and env[bb['id']][0] == 'payload')}
                        state = {'self': s, 'self_ids': self_ids}
                        if 'g' in a and ev(a['g'], env, state) is not True:
                            continue
                        hit = (a, env, state)
                        break
                    if hit is None:
                        raise Unrec('no arm for (%s, %s)' % (s, o))
                    a, env, state = hit
                    res = ev(a['b'], env, state)
                    n += 1
                    show = lambda v: v if isinstance(v, str) else '%s(%s)' % v
                    if mut:
                        new, flag = state['self'], res
                        if new != want(s, o):
                            rep.viol('L10', path, 'case-table-value:%s,%s' % (show(s), show(o)),
                                     '%s on (%s, %s) leaves the receiver at %s, the %s bound of the flat order is %s' % (
                                         b['name'], show(s), show(o), show(new), 'least upper' if want is lub else 'greatest lower', show(want(s, o))), loc=cr.loc(a['b']))
                        if flag != (new != s):
                            rep.viol('L10', path, 'case-table-flag:%s,%s' % (show(s), show(o)),
                                     '%s on (%s, %s) returns %s although the receiver %s (%s -> %s)' % (
                                         b['name'], show(s), show(o), str(flag).lower(), 'changed' if new != s else 'did not change', show(s), show(new)), loc=cr.loc(a['b']))
                    else:
                        if res != want(s, o):
                            rep.viol('L10', path, 'case-table-value:%s,%s' % (show(s), show(o)),
                                     '%s of (%s, %s) is %s, the bound of the flat order is %s' % (b['name'], show(s), show(o), show(res), show(want(s, o))), loc=cr.loc(a['b']))
        except Unrec as ex:
            raise Broken('L10.C: %s: shape not recognised (%s)' % (path, ex))
        rep.inst('L10.C', '%s: 16 constructor pairs decided against the flat order' % path)
    return n


# ------------------------------------------------------------------ L10.PO  incomparable components

def check_partial_cmp_propagation(cr, rep):
    """product-style orders: inside a hand-written `partial_cmp` of the lattice module every intermediate comparison that can be
    undefined (a component's `partial_cmp`, `combine_orderings`: anything of type Option<Ordering>) hands its `None` on - by `?`,
    by a `None => return None` / `None => None` arm, or by being the result itself. An `if let Some(ord) = .. { .. }` without an
    else that yields None *skips* an incomparable component: values that differ in it compare Equal / Less."""
    n = 0
    for path, b in sorted(cr.bodies.items()):
        if b['name'] != 'partial_cmp' or not (b.get('trait_of') or '').endswith('cmp::PartialOrd') or 'lattice::' not in path:
            continue
        rep.functions.add(path)
        defs = {}
        for x, _ in walk(b['tree']):
            if x.get('k') == 'let' and 'i' in x and x['p'].get('k') == 'bind':
                defs[x['p']['id']] = x['i']
        opt_calls = []
        for x, parents in walk(b['tree']):
            if x.get('k') in ('call', 'mcall') and (cr.ty(x) or '').replace(' ', '') == 'std::option::Option<std::cmp::Ordering>':
                opt_calls.append((x, parents))
        for x, parents in opt_calls:
            # what consumes the value: skip transparent wrappers
            verdict = None
            cur = x
            for p_ in reversed(parents):
                k = p_.get('k')
                if k in ('block',) and p_.get('e') is cur or (k == 'block' and strip(p_).get('e') is cur):
                    cur = p_; continue
                if k == 'match' and strip(p_['e']) is cur:
                    if p_.get('src') in ('try', '?') or (p_.get('src') or '').lower().startswith('try'):
                        verdict = 'propagated by ?'
                    else:
                        none_arm = [a for a in p_['arms'] if ((a['p'].get('path') or {}).get('d') or '').endswith('::None')]
                        if none_arm and _yields_none(none_arm[0]['b']):
                            verdict = 'None arm yields None'
                        elif none_arm:
                            verdict = 'BAD: the None arm does not yield None'
                        else:
                            verdict = 'BAD: no None arm'
                    break
                if k == 'let' and 'ss' not in p_ and p_.get('i') is cur and p_.get('p', {}).get('k') == 'bind' and not any(q.get('k') == 'if' and strip(q['c']) is p_ for q in parents):
                    # bound to a local: look at the uses of that local
                    lid = p_['p']['id']
                    uses = [(y, ps) for y, ps in walk(b['tree']) if y.get('k') == 'path' and y.get('res') == 'local' and y.get('id') == lid]
                    ok_use = False
                    for y, ps in uses:
                        par = ps[-1] if ps else {}
                        if par.get('k') == 'match' and strip(par['e']) is y:
                            none_arm = [a for a in par['arms'] if ((a['p'].get('path') or {}).get('d') or '').endswith('::None')]
                            if par.get('src') in ('try', '?') or (none_arm and _yields_none(none_arm[0]['b'])):
                                ok_use = True
                    verdict = 'bound to a local whose match hands None on' if ok_use else 'BAD: bound to a local that is not matched with a None arm yielding None'
                    break
                if k == 'let' and p_.get('i') is cur and any(q.get('k') == 'if' and strip(q['c']) is p_ for q in parents):
                    iff = [q for q in parents if q.get('k') == 'if' and strip(q['c']) is p_][0]
                    if iff.get('el') is not None and _yields_none(iff['el']):
                        verdict = 'if let .. else yields None'
                    else:
                        verdict = 'BAD: `if let Some(..)` without an else that yields None - an undefined comparison is skipped'
                    break
                if k in ('semi', 'expr'):
                    cur = p_; continue
                if k == 'ret':
                    verdict = 'returned'; break
                break
            if verdict is None:
                # tail position of the function / closure = the result itself
                t = strip(b['tree'])
                tail = t.get('e') if t.get('k') == 'block' else t
                if tail is not None and (strip(tail) is x):
                    verdict = 'is the result'
                else:
                    verdict = 'other use'
            n += 1
            rep.inst('L10.PO', '%s: %s: %s' % (path, cname(callee(x)).split('::')[-1] if callee(x) else '?', verdict))
            if verdict.startswith('BAD'):
                rep.viol('L10', path, 'incomparable-skipped',
                         'an intermediate comparison of type Option<Ordering> does not hand its None on (%s): values that are incomparable in one '
                         'component compare as if that component were equal' % verdict[5:], loc=cr.loc(x))
    return n


def _yields_none(e):
    e = strip(e)
    k = e.get('k')
    if k == 'ret':
        return 'e' in e and _yields_none(e['e'])
    if k == 'path':
        return (e.get('d') or '').endswith('::None')
    if k == 'block':
        last = e.get('e')
        if last is not None:
            return _yields_none(last)
        if e.get('ss'):
            s_ = e['ss'][-1]
            return s_.get('k') in ('semi', 'expr') and _yields_none(s_['e'])
    return False


# ------------------------------------------------------------------ L10.W  change flag across a swap of the receiver

def check_flag_across_swap(cr, rep):
    """a `*_mut` operation that swaps the receiver with the argument (to iterate the smaller side) cannot learn from the operations
    after the swap whether the *original* receiver changed - inserting the old receiver into the argument says nothing about what
    the argument brought. The change flag of such an operation mentions a value recorded before the swap (`let self_len = ..`)."""
    n = 0
    for path, b in sorted(cr.bodies.items()):
        if b['name'] not in ('join_mut', 'meet_mut') or not (b.get('trait_of') or '').endswith('lattice::Lattice') or not b.get('impl_of'):
            continue
        self_id = b['params'][0].get('id') if b['params'] else None
        order = {id(x): i for i, (x, _) in enumerate(walk(b['tree']))}
        swaps = []
        for x, _ in walk(b['tree']):
            c = callee(x)
            if x.get('k') == 'call' and c and cname(c).endswith('mem::swap') and any((root_local(a) or {}).get('id') == self_id for a in x['a']):
                swaps.append(x)
        if not swaps:
            continue
        first_swap = min(order[id(x)] for x in swaps)
        lets = {}
        for x, _ in walk(b['tree']):
            if x.get('k') == 'let' and 'i' in x and x['p'].get('k') == 'bind':
                lets[x['p']['id']] = order[id(x)]
        t = strip(b['tree'])
        tail = t.get('e') if t.get('k') == 'block' else None
        rets = [tail] if tail is not None else []
        rets += [x['e'] for x, _ in walk(b['tree']) if x.get('k') == 'ret' and 'e' in x]
        for r in rets:
            n += 1
            mentioned = {y['id'] for y, _ in walk(r) if y.get('k') == 'path' and y.get('res') == 'local' and y['id'] in lets}
            # .. directly or through the locals it is computed from (`let grew = before != self.0.len(); grew`)
            inits = {x['p']['id']: x['i'] for x, _ in walk(b['tree']) if x.get('k') == 'let' and 'i' in x and x['p'].get('k') == 'bind'}
            grew_ = True
            while grew_:
                grew_ = False
                for i in list(mentioned):
                    for y, _ in walk(inits.get(i, {'k': 'none'})):
                        if y.get('k') == 'path' and y.get('res') == 'local' and y['id'] in lets and y['id'] not in mentioned:
                            mentioned.add(y['id']); grew_ = True
            pre = [i for i in mentioned if lets[i] < first_swap]
            ok = bool(pre)
            rep.inst('L10.W', '%s: the receiver is swapped with the argument; the returned flag mentions a value recorded before the swap: %s' % (path, ok))
            rep.functions.add(path)
            if not ok:
                rep.viol('L10.W', path, 'flag-after-swap',
                         'the receiver is swapped with the argument and the change flag is computed from what happens afterwards only: when the '
                         'receiver was the smaller side (a strict subset), nothing new is inserted after the swap and the operation reports '
                         '"unchanged" although the receiver grew', loc=cr.loc(r))
    return n


# ------------------------------------------------------------------ L10.SO  the inclusion order is decided by containment

def check_set_order(cr, rep):
    """`Set`'s order is inclusion: `partial_cmp` answers Less / Greater only where a containment test (`is_subset` / `is_superset`)
    holds on that path. A comparison of sizes is a necessary, not a sufficient, condition: {0,1} and {2} are incomparable."""
    from guards import conds_at
    n = 0
    for path, b in sorted(cr.bodies.items()):
        if b['name'] != 'partial_cmp' or 'lattice::set::Set<' not in path or not (b.get('trait_of') or '').endswith('cmp::PartialOrd'):
            continue
        rep.functions.add(path)
        for x, parents in walk(b['tree']):
            if x.get('k') != 'path' or x.get('res') != 'def':
                continue
            d = x.get('d') or ''
            if not d.endswith(('Ordering::Less', 'Ordering::Greater')):
                continue
            which = d.split('::')[-1]
            want = 'is_subset' if which == 'Less' else 'is_superset'
            other = 'is_superset' if which == 'Less' else 'is_subset'
            ok = False
            for c, pol in conds_at(parents, x):
                for y, _ in walk(c):
                    if y.get('k') == 'mcall' and pol:
                        rself = (root_local(y['r']) or {}).get('n')
                        if y['m'] == want and rself == 'self':
                            ok = True
                        if y['m'] == other and rself == 'other':
                            ok = True
            n += 1
            rep.inst('L10.SO', '%s: Ordering::%s is answered under a containment test: %s' % (path, which, ok))
            if not ok:
                rep.viol('L10', path, 'order-without-containment:' + which,
                         '`Set::partial_cmp` answers %s on a path where no containment test (`%s`) holds - e.g. from a comparison of sizes: '
                         'incomparable sets are ordered, and everything that trusts the order (Rc / Arc wrappers, Product) joins wrongly' % (which, want),
                         loc=cr.loc(x))
    return n


# ------------------------------------------------------------------ L10.R2  delegated updates under a short-circuiting adaptor

SHORT_CIRCUITING = ('Iterator::any', 'Iterator::all', 'Iterator::find', 'Iterator::find_map', 'Iterator::position', 'Iterator::take_while',
                    'Iterator::skip_while', 'Iterator::try_fold', 'Iterator::try_for_each', 'Iterator::map_while')


def check_no_short_circuit_iteration(cr, rep):
    """component-wise operations update *every* component: a delegated `join_mut` / `meet_mut` never runs inside the closure of an
    iterator adaptor that stops at the first `true` (`any`, `find`, `position`, `try_fold`, ..) - the components after the first
    one that changed would keep their old values (the change flag would still be right)."""
    n = 0
    for path, b in sorted(cr.bodies.items()):
        if b['name'] not in ('join_mut', 'meet_mut') or not (b.get('trait_of') or '').endswith('lattice::Lattice') or not b.get('impl_of'):
            continue
        for x, parents in walk(b['tree']):
            if x.get('k') != 'mcall' or x['m'] not in ('join_mut', 'meet_mut'):
                continue
            n += 1
            sc = None
            for i, p_ in enumerate(parents):
                if p_.get('k') == 'closure':
                    # the call the closure is an argument of
                    for q in reversed(parents[:i]):
                        if q.get('k') in ('mcall', 'call') and any(strip(a) is p_ for a in q.get('a', [])):
                            c = callee(q)
                            if c and cname(c).endswith(SHORT_CIRCUITING):
                                sc = cname(c).split('::')[-1]
                            break
            if sc:
                rep.functions.add(path)
                rep.viol('L10.R', path, 'short-circuit-iteration:' + sc,
                         'a delegated %s runs inside `%s`, which stops at the first component that reports a change: the components after it are '
                         'not updated - the stored value is below the least upper bound although the flag is right' % (x['m'], sc), loc=cr.loc(x))
    rep.inst('L10.R2', 'delegated *_mut calls inspected for short-circuiting adaptors: %d' % n)
    return n
