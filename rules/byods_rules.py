"""Rules over `ascent-byods-rels` (providers eqrel / trrel / trrel_uf): L5 merge outputs persist, L12 reflexivity filter is
not hard-wired, L14 every step of an inner fixpoint loop runs in every round, L15 binary eqrel merge sequence (ser/par siblings),
L3' write views keep their argument or are pure views. Properties C10, C11, C12."""
from facts import walk, callee, children
from tree import strip, cname, lit_bool, pat_bindings
from lib_rules import chain_root, mentions_role, CONSUMING, impl_self_ty
from guards import conds_at
from core import Broken

EXTRACT = {'drain', 'remove', 'take', 'pop', 'remove_entry', 'swap_remove'}
MERGE = 'merge_delta_to_total_new_to_delta'


def _chain_methods(n):
    out = []
    while True:
        n = strip(n)
        k = n.get('k')
        if k == 'block' and not n['ss'] and 'e' in n:
            n = n['e']; continue
        if k == 'mcall':
            out.append(n['m']); n = n['r']; continue
        if k in ('field', 'addr', 'index', 'cast'):
            n = n['e']; continue
        if k == 'unary' and n['op'] == 'deref':
            n = n['e']; continue
        if k == 'call':
            c = callee(n)
            out.append(cname(c).split('::')[-1])
            if n['a'] and len(n['a']) == 1:
                n = n['a'][0]; continue
        return out


def _is_fresh(n):
    """expression that builds a new empty value: Default::default(), T::default(), make_new(), struct literal of defaults"""
    n = strip(n)
    k = n.get('k')
    if k == 'call':
        c = callee(n)
        nm = cname(c)
        if nm.endswith(('Default::default', '::default', '::new', '::make_new', '::with_hasher')) and not n['a']:
            return True
    if k == 'struct':
        return all(_is_fresh(f['e']) or strip(f['e']).get('k') in ('lit', 'mcall', 'path') for f in n['fs']) and any(_is_fresh(f['e']) for f in n['fs'])
    return False


def classify_locals(body):
    """local id -> role: 'NEW' | 'DELTA' | 'TOTAL' (place rooted in that parameter), 'owned:<P>' (value extracted from P, must
    be stored back to survive), 'fresh' (new empty value), plus 'alias' handling through lets."""
    ps = body['params']
    roles = {}
    names = ['NEW', 'DELTA', 'TOTAL']
    for p, nm in zip(ps, names):
        if p.get('k') == 'bind':
            roles[p['id']] = nm
    tree = body['tree']
    for _ in range(6):
        changed = False
        for n, parents in walk(tree):
            k = n.get('k')
            if k == 'let' and 'i' in n and 'ss' not in n:
                init = n['i']
                binds = [b for b in pat_bindings(n['p']) if b['id'] not in roles]
                if not binds:
                    continue
                if _is_fresh(init):
                    for b in binds:
                        roles[b['id']] = 'fresh'; changed = True
                    continue
                r = chain_root(init)
                if r is not None and r['id'] in roles:
                    base = roles[r['id']]
                    meths = set(_chain_methods(init))
                    role = ('owned:' + base.split(':')[-1]) if (meths & EXTRACT) else base
                    for b in binds:
                        roles[b['id']] = role; changed = True
            if k == 'match':
                scr = strip(n['e'])
                if n.get('src') == 'for':
                    c = callee(scr)
                    if c and cname(c).endswith('IntoIterator::into_iter') and scr['a']:
                        src = scr['a'][0]
                        r = chain_root(src)
                        if r is not None and r['id'] in roles and (set(_chain_methods(src)) & (EXTRACT | {'into_iter'})):
                            for lp, _ in walk(n['arms'][0]['b']):
                                if lp.get('k') == 'match' and lp.get('src') == 'for':
                                    for a in lp['arms']:
                                        for b in pat_bindings(a['p']):
                                            if b['id'] not in roles:
                                                roles[b['id']] = 'owned:' + roles[r['id']].split(':')[-1]; changed = True
                                    break
                else:
                    r = chain_root(scr)
                    if r is not None and r['id'] in roles and roles[r['id']] in names:
                        for a in n['arms']:
                            for b in pat_bindings(a['p']):
                                if b['id'] not in roles:
                                    roles[b['id']] = roles[r['id']]; changed = True
        if not changed:
            break
    return roles


def _arg_local(arg):
    """(local node or None, is_fresh_temporary)"""
    a = strip(arg)
    inner = a
    while inner.get('k') == 'addr':
        inner = strip(inner['e'])
    if _is_fresh(inner):
        return None, True
    return chain_root(a), False


def _stores_into(body, roles, lid, want_param):
    """is local `lid` (a container being filled) stored into a place rooted in parameter want_param somewhere in the function?"""
    for n, _ in walk(body['tree']):
        if n.get('k') == 'assign':
            r = chain_root(n['l'])
            v = chain_root(n['r'])
            if r is not None and v is not None and roles.get(r['id']) == want_param and v['id'] == lid:
                return True
        if n.get('k') == 'mcall' and n['m'] in CONSUMING:
            r = chain_root(n['r'])
            if r is not None and roles.get(r['id']) == want_param:
                for a in n['a']:
                    v = chain_root(a)
                    if v is not None and v['id'] == lid:
                        return True
    return False


def _persist_after(body, roles, call, parents, lid, want_param):
    """after `call` (on every path through the rest of its enclosing blocks up to the loop body), local `lid` is moved into a
    container that is / ends up in a place rooted in parameter `want_param`; skipping the move is accepted only under the
    guard `lid.is_empty()`."""
    def consumes(n):
        n = strip(n)
        k = n.get('k')
        if k == 'block':
            return any(consumes(s.get('e') or s.get('i') or {}) for s in n['ss'] if s['k'] in ('expr', 'semi', 'let')) or ('e' in n and consumes(n['e']))
        if k == 'if':
            c = strip(n['c'])
            guard_pol = None
            cc = c
            pol = True
            while cc.get('k') == 'unary' and cc['op'] == 'not':
                cc = strip(cc['e']); pol = not pol
            if cc.get('k') == 'mcall' and cc['m'] == 'is_empty':
                r = chain_root(cc['r'])
                if r is not None and r['id'] == lid:
                    guard_pol = pol   # condition true <=> lid is empty (pol True) / non-empty (pol False)
            if guard_pol is False:      # if !lid.is_empty() { .. }
                return consumes(n['th'])
            if guard_pol is True:       # if lid.is_empty() { skip } else { .. }
                return 'el' in n and consumes(n['el'])
            return 'el' in n and consumes(n['th']) and consumes(n['el'])
        if k == 'match':
            return bool(n['arms']) and all(consumes(a['b']) for a in n['arms'])
        if k == 'mcall':
            if n['m'] in CONSUMING and any((chain_root(a) or {}).get('id') == lid for a in n['a']):
                r = chain_root(n['r'])
                if r is not None:
                    rr = roles.get(r['id'])
                    if rr == want_param:
                        return True
                    if rr in ('fresh', None) and _stores_into(body, roles, r['id'], want_param):
                        return True
            return any(consumes(c) for c in [n['r']] + n['a'])
        if k == 'assign':
            r = chain_root(n['l'])
            v = chain_root(n['r'])
            if r is not None and v is not None and roles.get(r['id']) == want_param and v['id'] == lid:
                return True
            return False
        if k in ('closure', 'loop'):
            return False
        return any(consumes(c) for c in children(n) if isinstance(c, dict))

    # statements after the call in each enclosing block, innermost first, stopping at a loop / closure boundary
    chain = list(parents) + [call]
    for i in range(len(chain) - 2, -1, -1):
        p = chain[i]
        nxt = chain[i + 1]
        if p.get('k') == 'block':
            idx = None
            for j, s in enumerate(p['ss']):
                if s is nxt or s.get('e') is nxt or s.get('i') is nxt:
                    idx = j
            if idx is not None:
                rest = {'k': 'block', 'ss': p['ss'][idx + 1:]}
                if 'e' in p:
                    rest['e'] = p['e']
                if consumes(rest):
                    return True
        if p.get('k') in ('loop', 'closure'):
            break
        if p.get('k') == 'match' and p.get('src') == 'for':
            break
    return False


def check_L5(ctx, rep, scope):
    """scope: module prefix whose wrappers are judged for this property (all call sites are still counted for the floor)"""
    cr = ctx.lib('ascent_byods_rels')
    sites = 0
    for path, b in sorted(cr.bodies.items()):
        if b['name'] != MERGE or not b.get('impl_of'):
            continue
        st = impl_self_ty(b)
        if st.startswith('&'):
            continue
        roles = None
        for n, parents in walk(b['tree']):
            c = callee(n)
            if not c or cname(c).split('::')[-1] != MERGE or n.get('k') != 'call' or len(n['a']) != 3:
                continue
            if roles is None:
                roles = classify_locals(b)
                rep.functions.add(path)
            sites += 1
            if ('<' + scope + '::') not in path and not path.startswith(scope + '::'):
                continue
            rep.call_sites += 1
            d_loc, d_fresh = _arg_local(n['a'][1])
            t_loc, t_fresh = _arg_local(n['a'][2])
            d_role = roles.get(d_loc['id']) if d_loc is not None else ('fresh' if d_fresh else None)
            t_role = roles.get(t_loc['id']) if t_loc is not None else ('fresh' if t_fresh else None)
            # delta output
            if d_role == 'DELTA':
                d_ok, d_how = True, 'place in delta'
            elif d_loc is not None and _persist_after(b, roles, n, parents, d_loc['id'], 'DELTA'):
                d_ok, d_how = True, 'stored back into delta afterwards'
            else:
                d_ok, d_how = False, 'merged delta (%s `%s`) is dropped' % (d_role, d_loc['n'] if d_loc is not None else 'temporary')
            # total output
            if t_role == 'TOTAL':
                t_ok, t_how = True, 'place in total'
            elif t_loc is not None and _persist_after(b, roles, n, parents, t_loc['id'], 'TOTAL'):
                t_ok, t_how = True, 'stored into total afterwards'
            elif t_fresh and d_role == 'fresh':
                t_ok, t_how = True, 'fresh total and fresh delta: nothing moves into total'
            else:
                t_ok, t_how = False, 'merged total (%s) is dropped' % t_role
            site = '%s: per-key merge(new=%s, delta=%s, total=%s)' % (path, (chain_root(n['a'][0]) or {}).get('n'), d_loc['n'] if d_loc is not None else 'tmp', t_loc['n'] if t_loc is not None else 'tmp')
            rep.inst('L5', '%s -> delta: %s; total: %s' % (site, d_how, t_how))
            if not d_ok:
                rep.viol('L5', path, 'delta:' + (d_loc['n'] if d_loc is not None else 'tmp'),
                         'the delta produced by a per-key %s is neither a place of the caller\'s delta nor stored back: %s' % (MERGE, d_how), loc=cr.loc(n))
            if not t_ok:
                rep.viol('L5', path, 'total:' + (t_loc['n'] if t_loc is not None else 'tmp'),
                         'the total produced by a per-key %s is lost: %s' % (MERGE, t_how), loc=cr.loc(n))
    if sites < 9:
        raise Broken('per-key merge call sites found: %d (expected 9 in the three ternary wrappers)' % sites)


# ------------------------------------------------------------------ L12

def check_L12(ctx, rep):
    cr = ctx.lib('ascent_byods_rels')
    # the filter: a condition `flag && x == y` guarding a `return false` / `continue`
    flag_filters = []
    for path, b in cr.bodies.items():
        if not path.startswith(('trrel_binary_ind::', '<trrel_binary_ind::')):
            continue
        for n, parents in walk(b['tree']):
            if n.get('k') == 'if':
                c = strip(n['c'])
                if c.get('k') == 'binary' and c['op'] == '&&':
                    l, r = strip(c['l']), strip(c['r'])
                    if l.get('k') == 'path' and l.get('res') == 'local' and 'reflexive' in l.get('n', '') and r.get('k') == 'binary' and r['op'] == '==':
                        from guards import diverges
                        rejects = diverges(n['th'])
                        flag_filters.append((path, n, rejects))
    rep.inst('L12', 'reflexivity filters found: %d' % len(flag_filters))
    # sources of the flag: every construction of a variant with a field `anti_reflexive`
    lits = []
    copies = 0
    external = 0
    for path, b in cr.bodies.items():
        for n, parents in walk(b['tree']):
            if n.get('k') == 'struct' and 'TrRelIndCommon' in (n['path'].get('d') or '') and 'trrel_binary_ind' in (n['path'].get('d') or ''):
                for f in n['fs']:
                    if f['n'] == 'anti_reflexive':
                        v = strip(f['e'])
                        lb = lit_bool(v)
                        if lb is not None:
                            lits.append((path, lb, n))
                            rep.inst('L12', '%s constructs the flag from literal %s' % (path, lb))
                        else:
                            r = chain_root(v)
                            is_param = False
                            if r is not None:
                                for p in b['params']:
                                    if p.get('k') == 'bind' and p['id'] == r['id'] and cr.ty(p) == 'bool':
                                        is_param = True
                            if is_param:
                                external += 1
                                rep.inst('L12', '%s takes the flag from a parameter' % path)
                            else:
                                copies += 1
                                rep.inst('L12', '%s copies the flag from another instance' % path)
    if not flag_filters:
        # no flag-driven filter: nothing to be hard-wired
        rep.inst('L12', 'no `flag && x == y` filter in trrel_binary_ind')
        return
    if not lits and not external:
        raise Broken('L12: constructions of the anti_reflexive flag not found')
    vals = {v for _, v, _ in lits}
    if external == 0 and vals == {True} and any(rej for _, _, rej in flag_filters):
        for path, n, rej in flag_filters:
            rep.viol('L12', path, 'anti_reflexive-hard-wired',
                     'the filter `anti_reflexive && x == y => reject` is always on: the flag is the constant `true` on all %d '
                     'construction paths (and %d copies), so pairs (x, x) implied by cycles are never derived' % (len(lits), copies),
                     loc=cr.loc(n))


# ------------------------------------------------------------------ L14

def check_L14(ctx, rep, scope=None, floor=3):
    """inside the inner fixpoint loops of the provider merges every step (a call that mutates the accumulated delta through a
    `&mut` argument and reports `changed`) is evaluated in every round: not under a short-circuit operator and not in a branch
    that depends on a sibling step's result."""
    cr = ctx.lib('ascent_byods_rels')
    n_steps = 0
    for path, b in sorted(cr.bodies.items()):
        if b['name'] != MERGE:
            continue
        if scope and ('<' + scope + '::') not in path and not path.startswith(scope + '::'):
            continue
        for lp, lparents in walk(b['tree']):
            if lp.get('k') != 'loop' or lp.get('src') != 'loop':
                continue
            steps = []
            for n, parents in walk(lp['b']):
                if n.get('k') == 'call' and (cr.ty(n) == 'bool') and any(strip(a).get('k') == 'addr' and strip(a).get('mut') for a in n['a']):
                    if any(p.get('k') == 'closure' for p in parents):
                        continue
                    steps.append((n, parents))
            step_result_ids = set()
            for n, parents in steps:
                par = parents[-1] if parents else {}
                if par.get('k') == 'let' and par['p'].get('k') == 'bind':
                    step_result_ids.add(par['p']['id'])
            for n, parents in steps:
                n_steps += 1
                fn = cname(callee(n)) or '?'
                ok = True
                why = ''
                chain = list(parents) + [n]
                for i, p in enumerate(chain[:-1]):
                    nxt = chain[i + 1]
                    if p.get('k') == 'binary' and p['op'] in ('||', '&&') and nxt is p['r']:
                        ok, why = False, 'right operand of `%s`' % p['op']
                    if p.get('k') == 'if' and (nxt is p['th'] or nxt is p.get('el')):
                        if mentions_ids(p['c'], step_result_ids) or any(s[0] is not n and _within(s[0], p['c']) for s in steps):
                            ok, why = False, 'branch on the result of a sibling step'
                        else:
                            # the only guard a step may stand under: an emptiness test, evaluated right there, of one of its own operands
                            c = strip(p['c'])
                            while c.get('k') == 'unary' and c.get('op') == 'not':
                                c = strip(c['e'])
                            own = {(chain_root(a) or {}).get('id') for a in n['a']} - {None}
                            direct = c.get('k') == 'mcall' and c['m'] == 'is_empty' and (chain_root(c['r']) or {}).get('id') in own
                            if not direct:
                                ok, why = False, 'guarded by a condition that is not an emptiness test of the step\'s own operands, taken at that point'
                rep.inst('L14', '%s: step %s evaluated unconditionally in each round: %s' % (path, fn.split('::')[-1], ok))
                if not ok:
                    rep.viol('L14', path, 'conditional-step:' + fn.split('::')[-1],
                             'a step of the inner fixpoint loop is not evaluated in every round (%s): '
                             'its contribution for the skipped round\'s delta is lost for good' % why, loc=cr.loc(n))
    if n_steps < floor:
        raise Broken('inner fixpoint steps found: %d (expected >= %d: the three joins of the closure loop)' % (n_steps, floor))


def mentions_ids(n, ids):
    for x, _ in walk(n):
        if x.get('k') == 'path' and x.get('res') == 'local' and x['id'] in ids:
            return True
    return False


def _within(x, tree):
    for y, _ in walk(tree):
        if y is x:
            return True
    return False


# ------------------------------------------------------------------ L15

def check_L15(ctx, rep):
    """binary eqrel merge (serial EqRelIndCommon, parallel CEqRelIndCommon): abstract interpretation over the symbolic contents
    of (total.combined, delta.old, delta.combined, new): the result must be total.combined = D, delta.old = D, delta.combined = D+N,
    new = empty; both siblings must agree."""
    cr = ctx.lib('ascent_byods_rels')
    results = {}
    for tyname in ('eqrel_ind::EqRelIndCommon<T>', 'ceqrel_ind::CEqRelIndCommon<T>'):
        b = None
        for path, bb in cr.bodies.items():
            if bb['name'] == MERGE and impl_self_ty(bb) == tyname:
                b = bb
        if b is None:
            raise Broken('merge of %s not found' % tyname)
        rep.functions.add(b['path'])
        ps = b['params']
        alias = {ps[0]['id']: 'new', ps[1]['id']: 'delta', ps[2]['id']: 'total'}
        state = {('new', 'combined'): frozenset('N'), ('delta', 'combined'): frozenset('D'), ('delta', 'old'): frozenset(['Dold']),
                 ('total', 'combined'): frozenset('T'), ('total', 'old'): frozenset(['Told'])}

        def place(n):
            """-> (param, field) of a place / handle expression"""
            fld = None
            n = strip(n)
            while True:
                n = strip(n)
                k = n.get('k')
                if k == 'path' and n.get('res') == 'local':
                    a = alias.get(n['id'])
                    if a is None:
                        return None
                    return (a, fld or 'combined')
                if k == 'field':
                    if fld is None and n['n'] in ('combined', 'old'):
                        fld = n['n']
                    n = n['e']; continue
                if k in ('addr', 'cast'):
                    n = n['e']; continue
                if k == 'unary' and n['op'] == 'deref':
                    n = n['e']; continue
                if k == 'mcall':
                    n = n['r']; continue
                if k == 'call' and n['a']:
                    n = n['a'][0]; continue
                return None

        class _Unrec(Exception):
            pass

        def step(e, st):
            """one effectful expression on one symbolic state -> list of successor states (an `if` forks: the analysis is
            path-enumerating, conditions are not interpreted - every path has to end in the required state)"""
            e = strip(e)
            k = e.get('k')
            if k == 'assign':
                l, r = place(e['l']), place(e['r'])
                if l is None or r is None:
                    raise _Unrec()
                st = dict(st); st[l] = st[r]
                return [st]
            if k == 'mcall' and e['m'] == 'combine':
                l = place(e['r'])
                arg = strip(e['a'][0])
                r = place(arg)
                if l is None or r is None:
                    raise _Unrec()
                st = dict(st); st[l] = st[l] | st[r]
                # std::mem::take empties the source
                c = callee(arg)
                if c and cname(c).endswith('mem::take'):
                    st[r] = frozenset()
                return [st]
            if k == 'if':
                # the one condition that is interpreted: `[!]<place>...is_empty()` empties the place on the branch where it holds
                c = strip(e['c']); neg = False
                while c.get('k') == 'unary' and c.get('op') == 'not':
                    c = strip(c['e']); neg = not neg
                emp = place(c['r']) if c.get('k') == 'mcall' and c['m'] == 'is_empty' else None
                st_t, st_f = st, st
                if emp is not None:
                    # on that branch the symbols the place holds denote the empty relation
                    st_e = dict(st); st_e['__empty__'] = st.get('__empty__', frozenset()) | st[emp]; st_e[emp] = frozenset()
                    st_t, st_f = (st, st_e) if neg else (st_e, st)
                out = run_block(e['th'], [st_t])
                out += run_block(e['el'], [st_f]) if e.get('el') is not None else [st_f]
                return out
            if k == 'block':
                return run_block(e, [st])
            raise _Unrec()

        def run_block(t, sts):
            t = strip(t)
            if t.get('k') != 'block':
                out = []
                for st in sts:
                    out += step(t, st)
                return out
            for s in t.get('ss', []):
                if s['k'] == 'let' and 'i' in s and s['p'].get('k') == 'bind':
                    pl = place(s['i'])
                    if pl is not None:
                        alias[s['p']['id']] = pl[0]
                    continue
                if s['k'] not in ('expr', 'semi'):
                    continue
                nxt = []
                for st in sts:
                    nxt += step(s['e'], st)
                sts = nxt
            if 'e' in t:
                nxt = []
                for st in sts:
                    nxt += step(t['e'], st)
                sts = nxt
            return sts

        try:
            finals = run_block(b['tree'], [state])
        except _Unrec:
            raise Broken('L15: statement shape of %s::%s not recognised' % (tyname, MERGE))
        want = {'total.combined': frozenset('D'), 'delta.old': frozenset('D'), 'delta.combined': frozenset('DN'), 'new': frozenset()}
        bad = None
        for state in finals:
            emp = state.get('__empty__', frozenset())
            res = {'total.combined': state[('total', 'combined')] - emp, 'delta.old': state[('delta', 'old')] - emp,
                   'delta.combined': state[('delta', 'combined')] - emp, 'new': state[('new', 'combined')] - emp}
            if res != {k: v - emp for k, v in want.items()} and bad is None:
                bad = res
        res = bad or want
        results[tyname] = res
        rep.inst('L15', '%s: %d path(s): %s' % (tyname, len(finals), {k: ''.join(sorted(v)) for k, v in res.items()}))
        if bad is not None:
            rep.viol('L15', b['path'], 'merge-sequence',
                     'eqrel merge leaves %s on some path (%d paths; expected total.combined=D, delta.old=D, delta.combined=D+N, '
                     'new=empty on every path)' % ({k: ''.join(sorted(v)) for k, v in res.items()}, len(finals)))
    vals = list(results.values())
    if len(vals) == 2 and vals[0] != vals[1]:
        rep.viol('L15', 'eqrel_ind/ceqrel_ind', 'siblings-disagree', 'serial and parallel eqrel merges compute different states')


# ------------------------------------------------------------------ L16 / L17

def check_L16(ctx, rep, modules):
    """`find` of the union-find style structures (get_dominant_id*): the subsumption map can hold chains (a subsumed class can be
    subsumed again), so a hit must be followed up: the value returned on the Some(parent) arm derives from a further lookup
    (recursive call / loop), never the looked-up parent itself - unless a lookup of that parent just missed."""
    cr = ctx.lib('ascent_byods_rels')
    n_f = 0
    for path, b in sorted(cr.bodies.items()):
        if not b['name'].startswith('get_dominant_id') or not any(path.startswith(m + '::') for m in modules):
            continue
        has_lookup = False
        for n, parents in walk(b['tree']):
            if n.get('k') != 'match' or n.get('src') != 'normal':
                continue
            scr = strip(n['e'])
            ms = _chain_methods(scr)
            if 'get' not in ms:
                continue
            has_lookup = True
            key_local = None
            for x, _ in walk(scr):
                if x.get('k') == 'mcall' and x['m'] == 'get' and x['a']:
                    key_local = chain_root(x['a'][0])
            for a in n['arms']:
                d = ((a['p'].get('path') or {}).get('d') or '')
                if not d.endswith('::Some'):
                    continue
                binds = {bb['id'] for bb in pat_bindings(a['p'])}
                # value of the arm
                v = strip(a['b'])
                while v.get('k') == 'block' and 'e' in v:
                    v = strip(v['e'])
                rv = chain_root(v) if v.get('k') in ('path', 'unary', 'field') else None
                followed = any(cname(callee(x)).split('::')[-1].startswith('get_dominant_id') for x, _ in walk(a['b']) if callee(x)) \
                    or any(x.get('k') == 'loop' for x, _ in walk(a['b']))
                direct = rv is not None and rv['id'] in binds
                # `None => parent` inside a lookup of that very parent is fine
                inner_none_ok = False
                if direct:
                    for p in parents:
                        pass
                n_f += 1
                rep.inst('L16', '%s: hit arm %s' % (path, 'follows the chain' if (followed and not direct) else ('returns the looked-up parent' if direct else 'other')))
                if direct and not followed:
                    rep.viol('L16', path, 'single-hop-find',
                             'find returns the first subsumer instead of following the subsumption chain to its root: classes '
                             'absorbed twice are reported under a stale id', loc=cr.loc(v))
                elif not followed and not direct:
                    # nested: the arm value may itself be a match on a second lookup (path halving) - accept if every leaf that
                    # returns a binding sits in a None arm of a lookup keyed by that binding
                    pass
        if has_lookup:
            rep.functions.add(path)
    floor = 2 * len([m for m in modules if m == 'union_find']) + 4 * len([m for m in modules if m == 'trrel_union_find'])
    if n_f < floor:
        raise Broken('get_dominant_id* hit arms found: %d (expected >= %d)' % (n_f, floor))


def check_L17(ctx, rep):
    """sibling agreement in TrRelUnionFind: f and rev_f treat their class-id parameter alike (both canonicalise it through
    get_dominant_id before using it as a key, or neither does)."""
    cr = ctx.lib('ascent_byods_rels')
    fns = {b['name']: b for p, b in cr.bodies.items() if p.startswith('trrel_union_find::TrRelUnionFind::<T>::')}
    pairs = 0
    for name, b in sorted(fns.items()):
        if name.startswith('rev_') or ('rev_' + name) not in fns:
            continue
        rb = fns['rev_' + name]

        def canon(body):
            ids = {p['id'] for p in body['params'] if p.get('k') == 'bind' and cr.ty(p) == 'usize'}
            if not ids:
                return None
            canonicalised = False
            raw_key_use = False
            for n, parents in walk(body['tree']):
                c = callee(n)
                if c and cname(c).split('::')[-1].startswith('get_dominant_id'):
                    for a in n['a']:
                        r = chain_root(a)
                        if r is not None and r['id'] in ids:
                            canonicalised = True
                if n.get('k') == 'mcall' and n['m'] in ('get', 'contains_key', 'get_mut') and n['a']:
                    r = chain_root(n['a'][0])
                    if r is not None and r['id'] in ids:
                        raw_key_use = True
            return (canonicalised, raw_key_use)
        c1, c2 = canon(b), canon(rb)
        if c1 is None or c2 is None:
            continue
        pairs += 1
        rep.functions.add(b['path']); rep.functions.add(rb['path'])
        rep.inst('L17', '%s / rev_%s: canonicalise id = %s / %s, raw id used as key = %s / %s' % (name, name, c1[0], c2[0], c1[1], c2[1]))
        if c1 != c2:
            which = ('rev_' + name) if c1[0] and not c2[0] else name
            rep.viol('L17', fns[which]['path'] if which in fns else which, 'sibling-canonicalisation',
                     '%s and rev_%s disagree: one resolves its class id through get_dominant_id before the lookup, the other uses '
                     'the raw (possibly stale) id as key' % (name, name))
    if pairs < 1:
        raise Broken('no (f, rev_f) sibling pair with a class-id parameter found in TrRelUnionFind')


# ------------------------------------------------------------------ L18 / L19 / L4b

def _mutated_fields(cr, b, self_id, seen=None, depth=0):
    """fields of the structure behind `self` (through one wrapper level `.0`) that a method writes: assignment targets, receivers of
    &mut method calls (insert / entry / push / extend ..), through inherent helper methods of the crate"""
    seen = seen or set()
    if b['path'] in seen or depth > 3:
        return set()
    seen.add(b['path'])
    out = set()

    def field_of(n):
        """first field name below the self root, skipping the tuple-wrapper field `0`"""
        chain = []
        n = strip(n)
        while True:
            n = strip(n)
            k = n.get('k')
            if k == 'block' and not n['ss'] and 'e' in n:
                n = n['e']; continue
            if k == 'field':
                chain.append(n['n']); n = n['e']; continue
            if k in ('addr', 'index', 'cast'):
                n = n['e']; continue
            if k == 'unary' and n['op'] == 'deref':
                n = n['e']; continue
            if k == 'mcall':
                n = n['r']; continue
            if k == 'path' and n.get('res') == 'local':
                if n['id'] != self_id and n['id'] not in aliases:
                    return None
                base = list(aliases.get(n['id'], []))
                names = base + [c for c in reversed(chain)]
                names = [c for c in names if c != '0']
                return names[0] if names else '<self>'
            return None
    aliases = {}
    # `if let Some(rm) = self.0.reverse_map1.as_mut()` / `let x = &mut self.0.map` : alias -> field
    for n, parents in walk(b['tree']):
        pat = init = None
        if n.get('k') == 'let' and 'i' in n:
            pat, init = n['p'], n['i']
        if pat is not None:
            f = field_of(init)
            if f and f != '<self>':
                for bb in pat_bindings(pat):
                    aliases[bb['id']] = [f]
    for n, parents in walk(b['tree']):
        k = n.get('k')
        if k == 'assign' or k == 'assignop':
            f = field_of(n['l'])
            if f:
                out.add(f)
        if k == 'mcall':
            rt = cr.s(n.get('rt')) or ''
            if rt.startswith('&mut') or n['m'] in ('insert', 'push', 'extend', 'entry', 'or_default', 'or_insert_with', 'raw_entry_mut', 'add',
                                                   'insert_with_hash_no_check', 'insert_by_ref'):
                f = field_of(n['r'])
                if f and n['m'] not in ('as_mut', 'as_ref', 'get', 'hasher', 'iter', 'len', 'contains', 'contains_key', 'is_some', 'is_none', 'clone'):
                    out.add(f)
            c = n.get('c') or {}
            d = c.get('d')
            if d in cr.bodies and d != b['path'] and (chain_root(n['r']) or {}).get('id') == self_id:
                callee_b = cr.bodies[d]
                if callee_b['params'] and callee_b['params'][0].get('k') == 'bind':
                    out |= _mutated_fields(cr, callee_b, callee_b['params'][0]['id'], seen, depth + 1)
    return out


def check_L18(ctx, rep, scope):
    """sibling writers: a write view that implements both RelIndexWrite::index_insert and RelFullIndexWrite::insert_if_not_present
    updates the same parts of the shared structure in both (e.g. the per-key map AND both reverse maps)."""
    cr = ctx.lib('ascent_byods_rels')
    by_ty = {}
    for path, b in cr.bodies.items():
        if not b.get('impl_of') or not (path.startswith('<' + scope) or path.startswith(scope)):
            continue
        tr = b.get('trait_of') or ''
        if (b['name'] == 'index_insert' and tr.endswith('RelIndexWrite')) or (b['name'] == 'insert_if_not_present' and tr.endswith('RelFullIndexWrite')):
            by_ty.setdefault(impl_self_ty(b), {})[b['name']] = b
    n = 0
    for ty, d in sorted(by_ty.items()):
        if len(d) != 2:
            continue
        fs = {}
        for nm, b in d.items():
            sid = b['params'][0]['id']
            fs[nm] = _mutated_fields(cr, b, sid)
            rep.functions.add(b['path'])
        if not fs['index_insert'] and not fs['insert_if_not_present']:
            continue
        n += 1
        ok = fs['index_insert'] == fs['insert_if_not_present']
        rep.inst('L18', '%s: index_insert writes %s, insert_if_not_present writes %s: %s' % (ty, sorted(fs['index_insert']), sorted(fs['insert_if_not_present']), ok))
        if not ok:
            diff = fs['index_insert'] ^ fs['insert_if_not_present']
            rep.viol('L18', d['index_insert']['path'], 'sibling-writers:' + ','.join(sorted(diff)),
                     'the two write paths of `%s` do not update the same parts of the structure (%s only on one path): rows inserted through one '
                     'of them are invisible to the index views built on the other part' % (ty, sorted(diff)))
    return n


def check_L19(ctx, rep, scope):
    """reverse-map shift of the ternary wrappers: for each optional reverse map field, the statements of the merge move
    delta -> total and new -> delta (abstract interpretation over the three set variables per field)."""
    cr = ctx.lib('ascent_byods_rels')
    n = 0
    shifted_fields = {}
    for path, b in sorted(cr.bodies.items()):
        if b['name'] != MERGE or not (path.startswith('<' + scope) or path.startswith(scope)) or not b.get('impl_of'):
            continue
        ps = b['params']
        role = {ps[0].get('id'): 'new', ps[1].get('id'): 'delta', ps[2].get('id'): 'total'}

        def place(e):
            e = strip(e)
            fld = None
            while True:
                e = strip(e)
                k = e.get('k')
                if k == 'field':
                    if e['n'] != '0':
                        fld = e['n']
                    e = e['e']; continue
                if k in ('addr', 'cast'):
                    e = e['e']; continue
                if k == 'unary' and e['op'] == 'deref':
                    e = e['e']; continue
                if k == 'mcall' and e['m'] in ('as_mut', 'unwrap', 'as_ref'):
                    e = e['r']; continue
                if k == 'path' and e.get('res') == 'local' and e['id'] in role and fld:
                    return (role[e['id']], fld)
                return None
        state = {}
        ops = 0
        for n_, parents in walk(b['tree']):
            c = callee(n_)
            if not c or n_.get('k') != 'call' or len(n_['a']) != 2:
                continue
            nm = cname(c)
            a, b_ = place(n_['a'][0]), place(n_['a'][1])
            if a is None or b_ is None or a[1] != b_[1] or 'reverse' not in a[1]:
                continue
            f = a[1]
            # the step's own guard: `if <version>.<field>.is_some()` must test the field that is shifted
            for p_ in reversed(parents):
                if p_.get('k') == 'if':
                    cnd = strip(p_['c'])
                    if cnd.get('k') == 'mcall' and cnd['m'] in ('is_some', 'is_none'):
                        g = place(cnd['r'])
                        if g is not None and 'reverse' in g[1]:
                            ok_g = g[1] == f
                            rep.inst('L19', '%s: shift step of `%s` is guarded by the presence of `%s`: %s' % (path, f, g[1], ok_g))
                            if not ok_g:
                                rep.viol('L19', path, 'guard-field:%s-under-%s' % (f, g[1]),
                                         'the shift of `%s` runs only when `%s` exists: with only one of the two reverse maps enabled '
                                         'it is skipped (stale index) or unwraps a missing map' % (f, g[1]), loc=cr.loc(n_))
                            break
            st = state.setdefault(f, {'new': frozenset('N'), 'delta': frozenset('D'), 'total': frozenset('T')})
            if 'move_hash_map' in nm:
                st[b_[0]] = st[b_[0]] | st[a[0]]; st[a[0]] = frozenset(); ops += 1
            elif nm.endswith('mem::swap'):
                st[a[0]], st[b_[0]] = st[b_[0]], st[a[0]]; ops += 1
        shifted_fields.setdefault(impl_self_ty(b), set()).update(state)
        for f, st in sorted(state.items()):
            n += 1
            ok = st['total'] == frozenset('TD') and st['delta'] == frozenset('N') and st['new'] == frozenset()
            rep.inst('L19', '%s: %s ends total=%s delta=%s new=%s: %s' % (path, f, ''.join(sorted(st['total'])), ''.join(sorted(st['delta'])), ''.join(sorted(st['new'])), ok))
            rep.functions.add(path)
            if not ok:
                rep.viol('L19', path, 'reverse-map-shift:' + f,
                         'after the merge `%s` holds total=%s delta=%s new=%s (expected total=T+D, delta=N, new=empty): lookups by the reversed '
                         'columns see stale or missing keys' % (f, ''.join(sorted(st['total'])), ''.join(sorted(st['delta'])), ''.join(sorted(st['new']))))
    # every reverse map a write view of this module fills is shifted by a merge of this module
    written = set()
    for path, b in sorted(cr.bodies.items()):
        if b['name'] in ('index_insert', 'insert_if_not_present') and b.get('impl_of') and (path.startswith('<' + scope) or path.startswith(scope)):
            written |= {f for f in _mutated_fields(cr, b, b['params'][0]['id']) if 'reverse' in f}
    all_shifted = set().union(*shifted_fields.values()) if shifted_fields else set()
    if written:
        ok = written <= all_shifted
        rep.inst('L19', '%s: reverse maps filled by the write views %s are all shifted by the merge %s: %s' % (scope, sorted(written), sorted(all_shifted), ok))
        if not ok:
            rep.viol('L19', scope, 'unshifted:' + ','.join(sorted(written - all_shifted)),
                     'the write views fill %s but no merge of the module shifts it from new to delta to total' % sorted(written - all_shifted))
    return n


def check_L4b(ctx, rep):
    """the `move_*_contents` helpers of the provider crate (same obligations as RelIndexMerge::move_index_contents: drain `from`
    completely into `to` on every path; size swaps exchange from/to themselves)"""
    import lib_rules
    cr = ctx.lib('ascent_byods_rels')
    n = 0
    for path, b in sorted(cr.bodies.items()):
        if not (b['name'].startswith('move_') and 'contents' in b['name']) or len(b['params']) != 2 or b.get('impl_of'):
            continue
        ps = b['params']
        if ps[0].get('k') != 'bind' or ps[1].get('k') != 'bind':
            continue
        n += 1
        rep.functions.add(path)
        roles = {ps[0]['id']: 'FROM', ps[1]['id']: 'TO'}
        lib_rules.propagate_roles(b['tree'], roles)
        disjoint = 'disjoint' in b['name']       # documented precondition: the two sides share no element
        saved = set(lib_rules.CONSUMING)
        if disjoint:
            lib_rules.CONSUMING |= lib_rules.UNCHECKED_INSERTS
        try:
            n += _l4b_one(cr, rep, path, b, roles, disjoint) - 1
        finally:
            lib_rules.CONSUMING.clear(); lib_rules.CONSUMING.update(saved)
    return n


def _l4b_one(cr, rep, path, b, roles, disjoint):
    import lib_rules
    if True:
        if not disjoint:
            for x, _ in walk(b['tree']):
                if x.get('k') == 'mcall' and x['m'] in lib_rules.UNCHECKED_INSERTS:
                    rep.viol('L4', path, 'unchecked-insert:' + x['m'], 'a move helper without a disjointness precondition inserts with `%s`: '
                             'keys present on both sides end up duplicated' % x['m'], loc=cr.loc(x))
        drained = [(x, p_) for x, p_ in walk(b['tree']) if x.get('k') == 'mcall' and x['m'] in ('drain', 'into_iter') and not x['a']
                   and (chain_root(x['r']) or {}).get('id') in roles and roles[chain_root(x['r'])['id']] == 'FROM']
        if not drained:
            rep.viol('L4', path, 'no-drain', 'helper does not drain `from`')
            return 1
        for x, parents in drained:
            body = None
            for p_ in reversed(parents):
                if p_.get('k') == 'match' and p_.get('src') == 'for':
                    for lp, _ in walk(p_['arms'][0]['b']):
                        if lp.get('k') == 'match' and lp.get('src') == 'for':
                            body = [a['b'] for a in lp['arms'] if pat_bindings(a['p'])]
                            break
                    break
            if not body:
                rep.viol('L4', path, 'drain-loop', 'cannot find the loop that consumes from.drain() (unrecognised idiom)')
                continue
            # a nested move helper call `move_x(&mut from_part, to_part)` counts as consuming
            def consumes(bd):
                if lib_rules.must_consume(bd, roles, ('TO',), ('DRAINED',)):
                    return True
                bd0 = strip(bd)
                arms = None
                for y, _ in walk(bd0):
                    if y.get('k') == 'match' and y.get('src') == 'normal':
                        arms = y['arms']; break
                if arms:
                    oks = []
                    for a in arms:
                        ok = lib_rules.must_consume(a['b'], roles, ('TO',), ('DRAINED',))
                        if not ok:
                            for y, _ in walk(a['b']):
                                c = callee(y)
                                if c and y.get('k') == 'call' and cname(c).split('::')[-1].startswith('move_') and len(y['a']) == 2:
                                    r0, r1 = chain_root(y['a'][0]), chain_root(y['a'][1])
                                    if r0 is not None and r1 is not None and roles.get(r0['id']) == 'DRAINED' and roles.get(r1['id']) == 'TO':
                                        ok = True
                        oks.append(ok)
                    return all(oks)
                return False
            ok = all(consumes(bd) for bd in body)
            rep.inst('L4b', '%s: every drained entry reaches `to`: %s' % (path, ok))
            if not ok:
                rep.viol('L4', path, 'drained-entry-dropped', 'a path through the merge loop drops a drained entry instead of inserting it into `to`', loc=cr.loc(x))
        for x, parents in walk(b['tree']):
            c = callee(x)
            if x.get('k') == 'call' and c and cname(c).endswith('mem::swap'):
                ra, rb = chain_root(x['a'][0]), chain_root(x['a'][1])
                r1 = roles.get(ra['id']) if ra is not None else None
                r2 = roles.get(rb['id']) if rb is not None else None
                ok = {r1, r2} in ({'FROM', 'TO'}, {'DRAINED', 'TO'})
                rep.inst('L4b', '%s: swap(%s, %s)' % (path, r1, r2))
                if not ok:
                    rep.viol('L4', path, 'swap(%s,%s)' % (r1, r2), 'size-swap exchanges %s with %s' % (r1, r2), loc=cr.loc(x))
    return 1


# ------------------------------------------------------------------ L21

def check_L21(ctx, rep, scope):
    """operand cover of the inner semi-naive closure loop of the transitive-relation merges. The loop maintains the not-yet-joined
    part DD of the pairs that the new rows N add to the closed total T. Its steps are calls `join(target, target_rev, rel1, rel2_rev, ..)`.
    The accumulated set is closed under composition with T u N only if the steps cover (DD,T), (T,DD) and a linear step with the
    generator set ((N,DD) or (DD,N)): every accumulated pair is once in DD (so it meets T on both sides) and every pair is a
    composition of N and T pairs (so N-linear steps reach all compositions). (DD,DD) alone pairs only pairs found in the same
    round. Operand classes are derived by dataflow: DD = the local swapped with the step's target each round, T = a part of the
    value taken out of the `total` parameter, N = a local filled from the `new` parameter before the loop and not written in it."""
    cr = ctx.lib('ascent_byods_rels')
    n_loops = 0
    for path, b in sorted(cr.bodies.items()):
        if b['name'] != MERGE or not (('<' + scope + '::') in path or path.startswith(scope + '::')):
            continue
        ps = b['params']
        roles = {ps[0].get('id'): 'N', ps[1].get('id'): 'D', ps[2].get('id'): 'T'}

        def mentioned_roles(e):
            out = set()
            for x, _ in walk(e):
                if x.get('k') == 'path' and x.get('res') == 'local' and x['id'] in roles:
                    out.add(roles[x['id']])
            return out
        changed, guard = True, 0
        while changed and guard < 12:
            changed, guard = False, guard + 1
            for n, parents in walk(b['tree']):
                if any(p.get('k') in ('loop',) and p.get('src') == 'loop' for p in parents):
                    continue
                if n.get('k') == 'let' and 'i' in n:
                    rs = mentioned_roles(n['i'])
                    if len(rs) == 1:
                        for bb in pat_bindings(n['p']):
                            if bb['id'] not in roles:
                                roles[bb['id']] = next(iter(rs)); changed = True
                if n.get('k') == 'match':
                    rs = mentioned_roles(n['e'])
                    if len(rs) == 1:
                        for a in n['arms']:
                            for bb in pat_bindings(a['p']):
                                if bb['id'] not in roles:
                                    roles[bb['id']] = next(iter(rs)); changed = True
        # locals filled inside a for-loop over an N-rooted iterable (the id-mapped copy of the new rows)
        for n, parents in walk(b['tree']):
            if n.get('k') == 'match' and n.get('src') == 'for' and not any(p.get('k') == 'loop' and p.get('src') == 'loop' for p in parents):
                scr = strip(n['e'])
                if scr.get('k') == 'call' and scr['a'] and mentioned_roles(scr['a'][0]) == {'N'}:
                    for x, _ in walk(n['arms'][0]['b']):
                        if x.get('k') == 'mcall' and x['m'] in ('insert', 'push', 'entry'):
                            r = chain_root(x['r'])
                            if r is not None and r['id'] not in roles:
                                roles[r['id']] = 'N'
        for lp, lparents in walk(b['tree']):
            if lp.get('k') != 'loop' or lp.get('src') != 'loop':
                continue
            steps = []
            for n, parents in walk(lp['b']):
                if n.get('k') == 'call' and cr.ty(n) == 'bool' and len(n['a']) >= 4 and not any(p.get('k') == 'closure' for p in parents):
                    a0, a1 = strip(n['a'][0]), strip(n['a'][1])
                    if a0.get('k') == 'addr' and a0.get('mut') and a1.get('k') == 'addr' and a1.get('mut'):
                        steps.append(n)
            if not steps:
                continue
            n_loops += 1
            swaps = {}
            written = set()
            for n, parents in walk(lp['b']):
                c = callee(n)
                if n.get('k') == 'call' and c and cname(c).endswith('mem::swap'):
                    ra, rb = chain_root(n['a'][0]), chain_root(n['a'][1])
                    if ra is not None and rb is not None:
                        swaps[ra['id']] = rb['id']; swaps[rb['id']] = ra['id']
                if n.get('k') == 'addr' and n.get('mut') and not any(p.get('k') == 'closure' for p in parents):
                    r = chain_root(n['e'])
                    if r is not None:
                        written.add(r['id'])

            def operand(e):
                e = strip(e)
                while True:
                    e = strip(e)
                    if e.get('k') == 'addr':
                        e = e['e']; continue
                    if e.get('k') == 'call' and (e.get('f') or {}).get('dk') == 'Ctor' and len(e['a']) == 1:
                        e = e['a'][0]; continue
                    break
                r = chain_root(e)
                return r, e
            pairs = []
            for s in steps:
                tgt, tgt_rev = chain_root(s['a'][0]), chain_root(s['a'][1])

                def cls(e, want_rev):
                    r, node = operand(e)
                    if r is None:
                        return '?'
                    partner = swaps.get(r['id'])
                    if partner is not None and tgt is not None and partner == (tgt_rev if want_rev else tgt)['id']:
                        return 'DD'
                    if partner is not None:
                        return 'DD?'          # swapped with something else than this step's own target: wrong companion
                    role = roles.get(r['id'])
                    if role == 'T' and node.get('k') == 'field':
                        return 'T'
                    if role == 'N' and r['id'] not in written:
                        return 'N'
                    return '?'
                l, r_ = cls(s['a'][2], False), cls(s['a'][3], True)
                pairs.append((l, r_))
                rep.inst('L21', '%s: step %s joins (%s, %s)' % (path, (s.get('snip') or '')[:40].replace('\n', ' '), l, r_))
            have = set(pairs)
            need = [('DD', 'T'), ('T', 'DD')]
            missing = [p for p in need if p not in have]
            if ('N', 'DD') not in have and ('DD', 'N') not in have:
                missing.append(('N', 'DD'))
            rep.functions.add(path)
            # the frontier starts from the new rows
            seeded = False
            for n, parents in walk(b['tree']):
                if n.get('k') == 'let' and 'i' in n and not any(p is lp for p in parents):
                    ids = [bb['id'] for bb in pat_bindings(n['p'])]
                    if any(i in swaps for i in ids) and mentioned_roles(n['i']) == {'N'}:
                        seeded = True
            rep.inst('L21', '%s: closure loop with %d steps %s, frontier seeded from the new rows: %s, cover complete: %s' % (
                path, len(steps), sorted(have), seeded, not missing))
            if missing:
                rep.viol('L21', path, 'closure-cover:' + ','.join('%s*%s' % p for p in missing),
                         'the inner closure loop has no step joining %s (steps found: %s): compositions of pairs found in different rounds '
                         'are never formed, the delta (and later the total) misses closure pairs' % (
                             ' / '.join('(%s,%s)' % p for p in missing), sorted(have)), loc=cr.loc(lp))
            if not seeded:
                rep.viol('L21', path, 'closure-frontier-not-seeded', 'the frontier of the inner closure loop is not initialised from the new rows', loc=cr.loc(lp))
    return n_loops


# ------------------------------------------------------------------ L20

_DISCARD_MUT = {'push', 'insert', 'push_back', 'extend', 'append', 'remove', 'clear', 'insert_unique_unchecked'}


def _tail_leaves(n):
    n = strip(n)
    k = n.get('k')
    if k == 'block':
        if 'e' in n:
            return _tail_leaves(n['e'])
        return []
    if k == 'if':
        return _tail_leaves(n['th']) + (_tail_leaves(n['el']) if 'el' in n else [])
    if k == 'match':
        out = []
        for a in n['arms']:
            out += _tail_leaves(a['b'])
        return out
    if k == 'ret':
        return _tail_leaves(n['e']) if 'e' in n else []
    return [n]


def check_L20(ctx, rep, modules):
    """change-flag fidelity of the insert/add functions of the provider data structures (`&mut self -> bool`): the generated code
    sets `__changed` - and so keeps a looping stratum alive - only when the insertion reports `true`. A path that has already changed
    the structure through an operation whose own result is discarded (push / insert as a statement / mem::take / assignment) must
    therefore return `true`: not `false`, and not the result of a further call, which reports only what that call changed."""
    cr = ctx.lib('ascent_byods_rels')
    n_fn = 0
    for path, b in sorted(cr.bodies.items()):
        if not any(path.startswith(m + '::') for m in modules) or not b['params']:
            continue
        if b.get('ret') is None or cr.s(b['ret']) != 'bool':
            continue
        p0 = b['params'][0]
        if p0.get('k') != 'bind' or not (cr.s(p0.get('t')) or '').startswith('&mut'):
            continue
        if not (b['name'].startswith('add') or b['name'].startswith('insert')):
            continue
        self_id = p0['id']
        n_fn += 1
        rep.functions.add(path)
        muts = []
        for n, parents in walk(b['tree']):
            if any(p.get('k') == 'closure' for p in parents):
                continue
            par = parents[-1] if parents else {}
            stmt_pos = par.get('k') in ('semi',) or (par.get('k') == 'expr')
            is_mut = False
            if n.get('k') == 'mcall' and n['m'] in _DISCARD_MUT and stmt_pos:
                r = chain_root(n['r'])
                is_mut = r is not None and r['id'] == self_id
            if n.get('k') == 'assign':
                r = chain_root(n['l'])
                is_mut = r is not None and r['id'] == self_id
            if n.get('k') == 'call' and cname(callee(n) or {}).endswith('mem::take') if n.get('k') == 'call' else False:
                r = chain_root(n['a'][0])
                is_mut = r is not None and r['id'] == self_id
            if is_mut:
                muts.append((n, parents))
        bad = []
        for m, parents in muts:
            # the value of the function on paths through m: walk outwards; at each enclosing block the statements after the one
            # containing m run next; the first enclosing construct in tail position decides
            leaves = []
            chain = list(parents) + [m]
            decided = False
            for i in range(len(chain) - 1, -1, -1):
                node = chain[i]
                if node.get('k') == 'block':
                    inner = chain[i + 1] if i + 1 < len(chain) else None
                    stmts = node['ss']
                    idx = None
                    for j, s_ in enumerate(stmts):
                        if s_ is inner:
                            idx = j
                    if idx is not None:
                        for s_ in stmts[idx + 1:]:
                            for x, _ in walk(s_):
                                if x.get('k') == 'ret' and 'e' in x:
                                    leaves += _tail_leaves(x['e'])
                        if 'e' in node:
                            leaves += _tail_leaves(node['e'])
                            decided = True
                            break
                    # inner is the tail expression of this block: its own value flows outwards, continue
                if node.get('k') == 'closure':
                    break
            if not decided:
                continue
            for lf in leaves:
                lb = lit_bool(lf)
                kind = None
                if lb is False:
                    kind = 'returns-false-after-mutation'
                elif lf.get('k') in ('mcall', 'call') and lb is None:
                    c = callee(lf)
                    nm = cname(c) if c else lf.get('m', '?')
                    kind = 'returns-delegated-result-after-mutation:' + nm.split('::')[-1]
                if kind:
                    bad.append((kind, m, lf))
        rep.inst('L20', '%s: %d result-discarding mutations of self, each followed only by `true` (or a computed flag): %s' % (path, len(muts), not bad))
        seen = set()
        for kind, m, lf in bad:
            if kind in seen:
                continue
            seen.add(kind)
            rep.viol('L20', path, kind, 'after `%s` has changed the structure the function can still report "nothing changed" (%s): the generated '
                     'code then does not set `__changed`, a looping stratum stops and the row never reaches the total' % (
                         (m.get('snip') or '')[:60].replace('\n', ' '), (lf.get('snip') or '')[:60].replace('\n', ' ')), loc=cr.loc(m))
    return n_fn


# ------------------------------------------------------------------ L23

def _lit_int(n):
    n = strip(n)
    while n.get('k') in ('cast',):
        n = strip(n['e'])
    if n.get('k') == 'lit':
        v = str(n.get('v', n.get('snip', '')))
        digits = ''.join(ch for ch in v.split('_')[0] if ch.isdigit())
        try:
            return int(digits) if digits else None
        except ValueError:
            return None
    return None


def check_L23(ctx, rep, modules):
    """size estimates are total functions: the generated join code calls `len_estimate` on every version of a relation, also on
    an empty one (first iteration, relation without facts). An integer division in such a function must have a divisor that is
    non-zero by construction: a non-zero literal (possibly through an immutable local) or `<expr>.max(k)` with k >= 1 - the idiom
    every estimate of the crate uses."""
    cr = ctx.lib('ascent_byods_rels')
    n_div = 0
    for path, b in sorted(cr.bodies.items()):
        if not ('len_estimate' in b['name'] or 'count_estimate' in b['name']):
            continue
        if not any((('<' + m + '::') in path) or path.startswith(m + '::') for m in modules):
            continue
        lits = {}
        for n, parents in walk(b['tree']):
            if n.get('k') == 'let' and 'i' in n and n['p'].get('k') == 'bind' and not n['p'].get('mut'):
                v = _lit_int(n['i'])
                if v is not None:
                    lits[n['p']['id']] = v
        for n, parents in walk(b['tree']):
            if n.get('k') not in ('binary', 'assignop') or n.get('op') not in ('/', '%'):
                continue
            ty = cr.ty(n) or ''
            if ty in ('f32', 'f64'):
                continue
            n_div += 1
            d = strip(n['r'])
            while d.get('k') == 'cast' or (d.get('k') == 'block' and not d['ss'] and 'e' in d):
                d = strip(d['e'])
            ok = False
            v = _lit_int(d)
            if v is not None and v != 0:
                ok = True
            elif d.get('k') == 'path' and d.get('res') == 'local' and lits.get(d['id'], 0) != 0:
                ok = True
            elif d.get('k') == 'mcall' and d['m'] == 'max' and d['a']:
                a = strip(d['a'][0])
                av = _lit_int(a)
                if av is None and a.get('k') == 'path' and a.get('res') == 'local':
                    av = lits.get(a['id'])
                ok = av is not None and av >= 1
            rep.inst('L23', '%s: divisor `%s` is non-zero by construction: %s' % (path, (d.get('snip') or '')[:50].replace('\n', ' '), ok))
            rep.functions.add(path)
            if not ok:
                rep.viol('L23', path, 'division-by-possibly-zero', 'the size estimate divides by `%s`, which is 0 for an empty relation: the generated join '
                         'order test panics ("attempt to divide by zero") before any tuple is read' % (d.get('snip') or '')[:60].replace('\n', ' '), loc=cr.loc(n))
    return n_div
