"""Rules over `ascent-byods-rels` (providers eqrel / trrel / trrel_uf): L5 merge outputs persist, L12 reflexivity filter is
not hard-wired, L14 every step of an inner fixpoint loop runs in every round, L15 binary eqrel merge sequence (ser/par siblings),
L3' write views keep their argument or are pure views. Properties C10, C11, C12."""
from facts import walk, callee, children
from tree import strip, cname, lit_bool, pat_bindings
from lib_rules import chain_root, mentions_role, CONSUMING, impl_self_ty
from guards import conds_at
from core import Broken

EXTRACT = {'drain', 'remove', 'take', 'pop', 'remove_entry', 'swap_remove'}
MERGE = 'merge_delta_to_total_new_to_delta'


def _chain_methods(n):
    out = []
    while True:
        n = strip(n)
        k = n.get('k')
        if k == 'block' and not n['ss'] and 'e' in n:
            n = n['e']; continue
        if k == 'mcall':
            out.append(n['m']); n = n['r']; continue
        if k in ('field', 'addr', 'index', 'cast'):
            n = n['e']; continue
        if k == 'unary' and n['op'] == 'deref':
            n = n['e']; continue
        if k == 'call':
            c = callee(n)
            out.append(cname(c).split('::')[-1])
            if n['a'] and len(n['a']) == 1:
                n = n['a'][0]; continue
        return out


def _is_fresh(n):
    """expression that builds a new empty value: Default::default(), T::default(), make_new(), struct literal of defaults"""
    n = strip(n)
    k = n.get('k')
    if k == 'call':
        c = callee(n)
        nm = cname(c)
        if nm.endswith(('Default::default', '::default', '::new', '::make_new', '::with_hasher')) and not n['a']:
            return True
    if k == 'struct':
        return all(_is_fresh(f['e']) or strip(f['e']).get('k') in ('lit', 'mcall', 'path') for f in n['fs']) and any(_is_fresh(f['e']) for f in n['fs'])
    return False


def classify_locals(body):
    """local id -> role: 'NEW' | 'DELTA' | 'TOTAL' (place rooted in that parameter), 'owned:<P>' (value extracted from P, must
    be stored back to survive), 'fresh' (new empty value), plus 'alias' handling through lets."""
    ps = body['params']
    roles = {}
    names = ['NEW', 'DELTA', 'TOTAL']
    for p, nm in zip(ps, names):
        if p.get('k') == 'bind':
            roles[p['id']] = nm
    tree = body['tree']
    for _ in range(6):
        changed = False
        for n, parents in walk(tree):
            k = n.get('k')
            if k == 'let' and 'i' in n and 'ss' not in n:
                init = n['i']
                binds = [b for b in pat_bindings(n['p']) if b['id'] not in roles]
                if not binds:
                    continue
                if _is_fresh(init):
                    for b in binds:
                        roles[b['id']] = 'fresh'; changed = True
                    continue
                r = chain_root(init)
                if r is not None and r['id'] in roles:
                    base = roles[r['id']]
                    meths = set(_chain_methods(init))
                    role = ('owned:' + base.split(':')[-1]) if (meths & EXTRACT) else base
                    for b in binds:
                        roles[b['id']] = role; changed = True
            if k == 'match':
                scr = strip(n['e'])
                if n.get('src') == 'for':
                    c = callee(scr)
                    if c and cname(c).endswith('IntoIterator::into_iter') and scr['a']:
                        src = scr['a'][0]
                        r = chain_root(src)
                        if r is not None and r['id'] in roles and (set(_chain_methods(src)) & (EXTRACT | {'into_iter'})):
                            for lp, _ in walk(n['arms'][0]['b']):
                                if lp.get('k') == 'match' and lp.get('src') == 'for':
                                    for a in lp['arms']:
                                        for b in pat_bindings(a['p']):
                                            if b['id'] not in roles:
                                                roles[b['id']] = 'owned:' + roles[r['id']].split(':')[-1]; changed = True
                                    break
                else:
                    r = chain_root(scr)
                    if r is not None and r['id'] in roles and roles[r['id']] in names:
                        for a in n['arms']:
                            for b in pat_bindings(a['p']):
                                if b['id'] not in roles:
                                    roles[b['id']] = roles[r['id']]; changed = True
        if not changed:
            break
    return roles


def _arg_local(arg):
    """(local node or None, is_fresh_temporary)"""
    a = strip(arg)
    inner = a
    while inner.get('k') == 'addr':
        inner = strip(inner['e'])
    if _is_fresh(inner):
        return None, True
    return chain_root(a), False


def _stores_into(body, roles, lid, want_param):
    """is local `lid` (a container being filled) stored into a place rooted in parameter want_param somewhere in the function?"""
    for n, _ in walk(body['tree']):
        if n.get('k') == 'assign':
            r = chain_root(n['l'])
            v = chain_root(n['r'])
            if r is not None and v is not None and roles.get(r['id']) == want_param and v['id'] == lid:
                return True
        if n.get('k') == 'mcall' and n['m'] in CONSUMING:
            r = chain_root(n['r'])
            if r is not None and roles.get(r['id']) == want_param:
                for a in n['a']:
                    v = chain_root(a)
                    if v is not None and v['id'] == lid:
                        return True
    return False


def _persist_after(body, roles, call, parents, lid, want_param):
    """after `call` (on every path through the rest of its enclosing blocks up to the loop body), local `lid` is moved into a
    container that is / ends up in a place rooted in parameter `want_param`; skipping the move is accepted only under the
    guard `lid.is_empty()`."""
    def consumes(n):
        n = strip(n)
        k = n.get('k')
        if k == 'block':
            return any(consumes(s.get('e') or s.get('i') or {}) for s in n['ss'] if s['k'] in ('expr', 'semi', 'let')) or ('e' in n and consumes(n['e']))
        if k == 'if':
            c = strip(n['c'])
            guard_pol = None
            cc = c
            pol = True
            while cc.get('k') == 'unary' and cc['op'] == 'not':
                cc = strip(cc['e']); pol = not pol
            if cc.get('k') == 'mcall' and cc['m'] == 'is_empty':
                r = chain_root(cc['r'])
                if r is not None and r['id'] == lid:
                    guard_pol = pol   # condition true <=> lid is empty (pol True) / non-empty (pol False)
            if guard_pol is False:      # if !lid.is_empty() { .. }
                return consumes(n['th'])
            if guard_pol is True:       # if lid.is_empty() { skip } else { .. }
                return 'el' in n and consumes(n['el'])
            return 'el' in n and consumes(n['th']) and consumes(n['el'])
        if k == 'match':
            return bool(n['arms']) and all(consumes(a['b']) for a in n['arms'])
        if k == 'mcall':
            if n['m'] in CONSUMING and any((chain_root(a) or {}).get('id') == lid for a in n['a']):
                r = chain_root(n['r'])
                if r is not None:
                    rr = roles.get(r['id'])
                    if rr == want_param:
                        return True
                    if rr in ('fresh', None) and _stores_into(body, roles, r['id'], want_param):
                        return True
            return any(consumes(c) for c in [n['r']] + n['a'])
        if k == 'assign':
            r = chain_root(n['l'])
            v = chain_root(n['r'])
            if r is not None and v is not None and roles.get(r['id']) == want_param and v['id'] == lid:
                return True
            return False
        if k in ('closure', 'loop'):
            return False
        return any(consumes(c) for c in children(n) if isinstance(c, dict))

    # statements after the call in each enclosing block, innermost first, stopping at a loop / closure boundary
    chain = list(parents) + [call]
    for i in range(len(chain) - 2, -1, -1):
        p = chain[i]
        nxt = chain[i + 1]
        if p.get('k') == 'block':
            idx = None
            for j, s in enumerate(p['ss']):
                if s is nxt or s.get('e') is nxt or s.get('i') is nxt:
                    idx = j
            if idx is not None:
                rest = {'k': 'block', 'ss': p['ss'][idx + 1:]}
                if 'e' in p:
                    rest['e'] = p['e']
                if consumes(rest):
                    return True
        if p.get('k') in ('loop', 'closure'):
            break
        if p.get('k') == 'match' and p.get('src') == 'for':
            break
    return False


def check_L5(ctx, rep, scope):
    """scope: module prefix whose wrappers are judged for this property (all call sites are still counted for the floor)"""
    cr = ctx.lib('ascent_byods_rels')
    sites = 0
    for path, b in sorted(cr.bodies.items()):
        if b['name'] != MERGE or not b.get('impl_of'):
            continue
        st = impl_self_ty(b)
        if st.startswith('&'):
            continue
        roles = None
        for n, parents in walk(b['tree']):
            c = callee(n)
            if not c or cname(c).split('::')[-1] != MERGE or n.get('k') != 'call' or len(n['a']) != 3:
                continue
            if roles is None:
                roles = classify_locals(b)
                rep.functions.add(path)
            sites += 1
            if ('<' + scope + '::') not in path and not path.startswith(scope + '::'):
                continue
            rep.call_sites += 1
            d_loc, d_fresh = _arg_local(n['a'][1])
            t_loc, t_fresh = _arg_local(n['a'][2])
            d_role = roles.get(d_loc['id']) if d_loc is not None else ('fresh' if d_fresh else None)
            t_role = roles.get(t_loc['id']) if t_loc is not None else ('fresh' if t_fresh else None)
            # delta output
            if d_role == 'DELTA':
                d_ok, d_how = True, 'place in delta'
            elif d_loc is not None and _persist_after(b, roles, n, parents, d_loc['id'], 'DELTA'):
                d_ok, d_how = True, 'stored back into delta afterwards'
            else:
                d_ok, d_how = False, 'merged delta (%s `%s`) is dropped' % (d_role, d_loc['n'] if d_loc is not None else 'temporary')
            # total output
            if t_role == 'TOTAL':
                t_ok, t_how = True, 'place in total'
            elif t_loc is not None and _persist_after(b, roles, n, parents, t_loc['id'], 'TOTAL'):
                t_ok, t_how = True, 'stored into total afterwards'
            elif t_fresh and d_role == 'fresh':
                t_ok, t_how = True, 'fresh total and fresh delta: nothing moves into total'
            else:
                t_ok, t_how = False, 'merged total (%s) is dropped' % t_role
            site = '%s: per-key merge(new=%s, delta=%s, total=%s)' % (path, (chain_root(n['a'][0]) or {}).get('n'), d_loc['n'] if d_loc is not None else 'tmp', t_loc['n'] if t_loc is not None else 'tmp')
            rep.inst('L5', '%s -> delta: %s; total: %s' % (site, d_how, t_how))
            if not d_ok:
                rep.viol('L5', path, 'delta:' + (d_loc['n'] if d_loc is not None else 'tmp'),
                         'the delta produced by a per-key %s is neither a place of the caller\'s delta nor stored back: %s' % (MERGE, d_how), loc=cr.loc(n))
            if not t_ok:
                rep.viol('L5', path, 'total:' + (t_loc['n'] if t_loc is not None else 'tmp'),
                         'the total produced by a per-key %s is lost: %s' % (MERGE, t_how), loc=cr.loc(n))
    if sites < 9:
        raise Broken('per-key merge call sites found: %d (expected 9 in the three ternary wrappers)' % sites)


# ------------------------------------------------------------------ L12

def check_L12(ctx, rep):
    cr = ctx.lib('ascent_byods_rels')
    # the filter: a condition `flag && x == y` guarding a `return false` / `continue`
    flag_filters = []
    for path, b in cr.bodies.items():
        if not path.startswith(('trrel_binary_ind::', '<trrel_binary_ind::')):
            continue
        for n, parents in walk(b['tree']):
            if n.get('k') == 'if':
                c = strip(n['c'])
                if c.get('k') == 'binary' and c['op'] == '&&':
                    l, r = strip(c['l']), strip(c['r'])
                    if l.get('k') == 'path' and l.get('res') == 'local' and 'reflexive' in l.get('n', '') and r.get('k') == 'binary' and r['op'] == '==':
                        from guards import diverges
                        rejects = diverges(n['th'])
                        flag_filters.append((path, n, rejects))
    rep.inst('L12', 'reflexivity filters found: %d' % len(flag_filters))
    # sources of the flag: every construction of a variant with a field `anti_reflexive`
    lits = []
    copies = 0
    external = 0
    for path, b in cr.bodies.items():
        for n, parents in walk(b['tree']):
            if n.get('k') == 'struct' and 'TrRelIndCommon' in (n['path'].get('d') or '') and 'trrel_binary_ind' in (n['path'].get('d') or ''):
                for f in n['fs']:
                    if f['n'] == 'anti_reflexive':
                        v = strip(f['e'])
                        lb = lit_bool(v)
                        if lb is not None:
                            lits.append((path, lb, n))
                            rep.inst('L12', '%s constructs the flag from literal %s' % (path, lb))
                        else:
                            r = chain_root(v)
                            is_param = False
                            if r is not None:
                                for p in b['params']:
                                    if p.get('k') == 'bind' and p['id'] == r['id'] and cr.ty(p) == 'bool':
                                        is_param = True
                            if is_param:
                                external += 1
                                rep.inst('L12', '%s takes the flag from a parameter' % path)
                            else:
                                copies += 1
                                rep.inst('L12', '%s copies the flag from another instance' % path)
    if not flag_filters:
        # no flag-driven filter: nothing to be hard-wired
        rep.inst('L12', 'no `flag && x == y` filter in trrel_binary_ind')
        return
    if not lits and not external:
        raise Broken('L12: constructions of the anti_reflexive flag not found')
    vals = {v for _, v, _ in lits}
    if external == 0 and vals == {True} and any(rej for _, _, rej in flag_filters):
        for path, n, rej in flag_filters:
            rep.viol('L12', path, 'anti_reflexive-hard-wired',
                     'the filter `anti_reflexive && x == y => reject` is always on: the flag is the constant `true` on all %d '
                     'construction paths (and %d copies), so pairs (x, x) implied by cycles are never derived' % (len(lits), copies),
                     loc=cr.loc(n))


# ------------------------------------------------------------------ L14

def check_L14(ctx, rep, scope=None, floor=3):
    """inside the inner fixpoint loops of the provider merges every step (a call that mutates the accumulated delta through a
    `&mut` argument and reports `changed`) is evaluated in every round: not under a short-circuit operator and not in a branch
    that depends on a sibling step's result."""
    cr = ctx.lib('ascent_byods_rels')
    n_steps = 0
    for path, b in sorted(cr.bodies.items()):
        if b['name'] != MERGE:
            continue
        if scope and ('<' + scope + '::') not in path and not path.startswith(scope + '::'):
            continue
        for lp, lparents in walk(b['tree']):
            if lp.get('k') != 'loop' or lp.get('src') != 'loop':
                continue
            steps = []
            for n, parents in walk(lp['b']):
                if n.get('k') == 'call' and (cr.ty(n) == 'bool') and any(strip(a).get('k') == 'addr' and strip(a).get('mut') for a in n['a']):
                    if any(p.get('k') == 'closure' for p in parents):
                        continue
                    steps.append((n, parents))
            step_result_ids = set()
            for n, parents in steps:
                par = parents[-1] if parents else {}
                if par.get('k') == 'let' and par['p'].get('k') == 'bind':
                    step_result_ids.add(par['p']['id'])
            for n, parents in steps:
                n_steps += 1
                fn = cname(callee(n)) or '?'
                ok = True
                why = ''
                chain = list(parents) + [n]
                for i, p in enumerate(chain[:-1]):
                    nxt = chain[i + 1]
                    if p.get('k') == 'binary' and p['op'] in ('||', '&&') and nxt is p['r']:
                        ok, why = False, 'right operand of `%s`' % p['op']
                    if p.get('k') == 'if' and (nxt is p['th'] or nxt is p.get('el')):
                        if mentions_ids(p['c'], step_result_ids) or any(s[0] is not n and _within(s[0], p['c']) for s in steps):
                            ok, why = False, 'branch on the result of a sibling step'
                rep.inst('L14', '%s: step %s evaluated unconditionally in each round: %s' % (path, fn.split('::')[-1], ok))
                if not ok:
                    rep.viol('L14', path, 'conditional-step:' + fn.split('::')[-1],
                             'a step of the inner fixpoint loop is skipped when an earlier step already reported a change (%s): '
                             'its contribution for this round\'s delta is lost for good' % why, loc=cr.loc(n))
    if n_steps < floor:
        raise Broken('inner fixpoint steps found: %d (expected >= %d: the three joins of the closure loop)' % (n_steps, floor))


def mentions_ids(n, ids):
    for x, _ in walk(n):
        if x.get('k') == 'path' and x.get('res') == 'local' and x['id'] in ids:
            return True
    return False


def _within(x, tree):
    for y, _ in walk(tree):
        if y is x:
            return True
    return False


# ------------------------------------------------------------------ L15

def check_L15(ctx, rep):
    """binary eqrel merge (serial EqRelIndCommon, parallel CEqRelIndCommon): abstract interpretation over the symbolic contents
    of (total.combined, delta.old, delta.combined, new): the result must be total.combined = D, delta.old = D, delta.combined = D+N,
    new = empty; both siblings must agree."""
    cr = ctx.lib('ascent_byods_rels')
    results = {}
    for tyname in ('eqrel_ind::EqRelIndCommon<T>', 'ceqrel_ind::CEqRelIndCommon<T>'):
        b = None
        for path, bb in cr.bodies.items():
            if bb['name'] == MERGE and impl_self_ty(bb) == tyname:
                b = bb
        if b is None:
            raise Broken('merge of %s not found' % tyname)
        rep.functions.add(b['path'])
        ps = b['params']
        alias = {ps[0]['id']: 'new', ps[1]['id']: 'delta', ps[2]['id']: 'total'}
        state = {('new', 'combined'): frozenset('N'), ('delta', 'combined'): frozenset('D'), ('delta', 'old'): frozenset(['Dold']),
                 ('total', 'combined'): frozenset('T'), ('total', 'old'): frozenset(['Told'])}

        def place(n):
            """-> (param, field) of a place / handle expression"""
            fld = None
            n = strip(n)
            while True:
                n = strip(n)
                k = n.get('k')
                if k == 'path' and n.get('res') == 'local':
                    a = alias.get(n['id'])
                    if a is None:
                        return None
                    return (a, fld or 'combined')
                if k == 'field':
                    if fld is None and n['n'] in ('combined', 'old'):
                        fld = n['n']
                    n = n['e']; continue
                if k in ('addr', 'cast'):
                    n = n['e']; continue
                if k == 'unary' and n['op'] == 'deref':
                    n = n['e']; continue
                if k == 'mcall':
                    n = n['r']; continue
                if k == 'call' and n['a']:
                    n = n['a'][0]; continue
                return None

        t = strip(b['tree'])
        stmts = t['ss'] if t.get('k') == 'block' else []
        ok = True
        for s in stmts:
            if s['k'] == 'let' and 'i' in s and s['p'].get('k') == 'bind':
                pl = place(s['i'])
                if pl is not None:
                    alias[s['p']['id']] = pl[0]
                continue
            if s['k'] not in ('expr', 'semi'):
                continue
            e = strip(s['e'])
            if e.get('k') == 'assign':
                l, r = place(e['l']), place(e['r'])
                if l is None or r is None:
                    ok = False; continue
                state[l] = state[r]
            elif e.get('k') == 'mcall' and e['m'] == 'combine':
                l = place(e['r'])
                arg = strip(e['a'][0])
                r = place(arg)
                if l is None or r is None:
                    ok = False; continue
                state[l] = state[l] | state[r]
                # std::mem::take empties the source
                c = callee(arg)
                if c and cname(c).endswith('mem::take'):
                    state[r] = frozenset()
            else:
                ok = False
        if 'e' in t:
            e = strip(t['e'])
            if e.get('k') == 'mcall' and e['m'] == 'combine':
                l = place(e['r']); arg = strip(e['a'][0]); r = place(arg)
                if l is not None and r is not None:
                    state[l] = state[l] | state[r]
                    c = callee(arg)
                    if c and cname(c).endswith('mem::take'):
                        state[r] = frozenset()
                else:
                    ok = False
        if not ok:
            raise Broken('L15: statement shape of %s::%s not recognised' % (tyname, MERGE))
        res = {'total.combined': state[('total', 'combined')], 'delta.old': state[('delta', 'old')],
               'delta.combined': state[('delta', 'combined')], 'new': state[('new', 'combined')]}
        results[tyname] = res
        rep.inst('L15', '%s: %s' % (tyname, {k: ''.join(sorted(v)) for k, v in res.items()}))
        want = {'total.combined': frozenset('D'), 'delta.old': frozenset('D'), 'delta.combined': frozenset('DN'), 'new': frozenset()}
        if res != want:
            rep.viol('L15', b['path'], 'merge-sequence',
                     'eqrel merge leaves %s (expected total.combined=D, delta.old=D, delta.combined=D+N, new=empty)' % (
                         {k: ''.join(sorted(v)) for k, v in res.items()},))
    vals = list(results.values())
    if len(vals) == 2 and vals[0] != vals[1]:
        rep.viol('L15', 'eqrel_ind/ceqrel_ind', 'siblings-disagree', 'serial and parallel eqrel merges compute different states')


# ------------------------------------------------------------------ L16 / L17

def check_L16(ctx, rep, modules):
    """`find` of the union-find style structures (get_dominant_id*): the subsumption map can hold chains (a subsumed class can be
    subsumed again), so a hit must be followed up: the value returned on the Some(parent) arm derives from a further lookup
    (recursive call / loop), never the looked-up parent itself - unless a lookup of that parent just missed."""
    cr = ctx.lib('ascent_byods_rels')
    n_f = 0
    for path, b in sorted(cr.bodies.items()):
        if not b['name'].startswith('get_dominant_id') or not any(path.startswith(m + '::') for m in modules):
            continue
        has_lookup = False
        for n, parents in walk(b['tree']):
            if n.get('k') != 'match' or n.get('src') != 'normal':
                continue
            scr = strip(n['e'])
            ms = _chain_methods(scr)
            if 'get' not in ms:
                continue
            has_lookup = True
            key_local = None
            for x, _ in walk(scr):
                if x.get('k') == 'mcall' and x['m'] == 'get' and x['a']:
                    key_local = chain_root(x['a'][0])
            for a in n['arms']:
                d = ((a['p'].get('path') or {}).get('d') or '')
                if not d.endswith('::Some'):
                    continue
                binds = {bb['id'] for bb in pat_bindings(a['p'])}
                # value of the arm
                v = strip(a['b'])
                while v.get('k') == 'block' and 'e' in v:
                    v = strip(v['e'])
                rv = chain_root(v) if v.get('k') in ('path', 'unary', 'field') else None
                followed = any(cname(callee(x)).split('::')[-1].startswith('get_dominant_id') for x, _ in walk(a['b']) if callee(x)) \
                    or any(x.get('k') == 'loop' for x, _ in walk(a['b']))
                direct = rv is not None and rv['id'] in binds
                # `None => parent` inside a lookup of that very parent is fine
                inner_none_ok = False
                if direct:
                    for p in parents:
                        pass
                n_f += 1
                rep.inst('L16', '%s: hit arm %s' % (path, 'follows the chain' if (followed and not direct) else ('returns the looked-up parent' if direct else 'other')))
                if direct and not followed:
                    rep.viol('L16', path, 'single-hop-find',
                             'find returns the first subsumer instead of following the subsumption chain to its root: classes '
                             'absorbed twice are reported under a stale id', loc=cr.loc(v))
                elif not followed and not direct:
                    # nested: the arm value may itself be a match on a second lookup (path halving) - accept if every leaf that
                    # returns a binding sits in a None arm of a lookup keyed by that binding
                    pass
        if has_lookup:
            rep.functions.add(path)
    floor = 2 * len([m for m in modules if m == 'union_find']) + 4 * len([m for m in modules if m == 'trrel_union_find'])
    if n_f < floor:
        raise Broken('get_dominant_id* hit arms found: %d (expected >= %d)' % (n_f, floor))


def check_L17(ctx, rep):
    """sibling agreement in TrRelUnionFind: f and rev_f treat their class-id parameter alike (both canonicalise it through
    get_dominant_id before using it as a key, or neither does)."""
    cr = ctx.lib('ascent_byods_rels')
    fns = {b['name']: b for p, b in cr.bodies.items() if p.startswith('trrel_union_find::TrRelUnionFind::<T>::')}
    pairs = 0
    for name, b in sorted(fns.items()):
        if name.startswith('rev_') or ('rev_' + name) not in fns:
            continue
        rb = fns['rev_' + name]

        def canon(body):
            ids = {p['id'] for p in body['params'] if p.get('k') == 'bind' and cr.ty(p) == 'usize'}
            if not ids:
                return None
            canonicalised = False
            raw_key_use = False
            for n, parents in walk(body['tree']):
                c = callee(n)
                if c and cname(c).split('::')[-1].startswith('get_dominant_id'):
                    for a in n['a']:
                        r = chain_root(a)
                        if r is not None and r['id'] in ids:
                            canonicalised = True
                if n.get('k') == 'mcall' and n['m'] in ('get', 'contains_key', 'get_mut') and n['a']:
                    r = chain_root(n['a'][0])
                    if r is not None and r['id'] in ids:
                        raw_key_use = True
            return (canonicalised, raw_key_use)
        c1, c2 = canon(b), canon(rb)
        if c1 is None or c2 is None:
            continue
        pairs += 1
        rep.functions.add(b['path']); rep.functions.add(rb['path'])
        rep.inst('L17', '%s / rev_%s: canonicalise id = %s / %s, raw id used as key = %s / %s' % (name, name, c1[0], c2[0], c1[1], c2[1]))
        if c1 != c2:
            which = ('rev_' + name) if c1[0] and not c2[0] else name
            rep.viol('L17', fns[which]['path'] if which in fns else which, 'sibling-canonicalisation',
                     '%s and rev_%s disagree: one resolves its class id through get_dominant_id before the lookup, the other uses '
                     'the raw (possibly stale) id as key' % (name, name))
    if pairs < 1:
        raise Broken('no (f, rev_f) sibling pair with a class-id parameter found in TrRelUnionFind')
