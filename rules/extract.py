"""Fact extraction: run the ascent-facts driver (rustc_private, typed HIR) over /repo's current working tree
and over the corpus workspace; cache the result by a content hash of everything that feeds it."""
import fcntl, glob, hashlib, json, os, shutil, subprocess, sys, time

VERIF = os.path.dirname(os.path.dirname(os.path.abspath(__file__)))
REPO = os.environ.get('ASCENT_REPO', '/repo')
WORK = os.environ.get('VERIF_WORK') or os.path.join(VERIF, '.work')
DRIVER_DIR = os.path.join(VERIF, 'driver')
DRIVER = os.path.join(DRIVER_DIR, 'target', 'debug', 'ascent-facts')
CORPUS_WS = os.path.join(WORK, 'corpus_ws')

REPO_SUBDIRS = ['ascent', 'ascent_base', 'ascent_macro', 'byods']


def _files_for_hash():
    out = []
    for sub in REPO_SUBDIRS:
        for root, dirs, files in os.walk(os.path.join(REPO, sub)):
            dirs[:] = [d for d in dirs if d not in ('target', '.git')]
            for f in files:
                if f.endswith(('.rs', '.toml', '.facts')) or f == 'Cargo.lock':
                    out.append(os.path.join(root, f))
    for f in ('Cargo.toml', 'Cargo.lock'):
        p = os.path.join(REPO, f)
        if os.path.exists(p):
            out.append(p)
    # the machinery itself: driver sources and corpus generator
    for pat in ('driver/src/*.rs', 'driver/Cargo.toml', 'corpus/*.py', 'corpus/descriptions/*.py'):
        out.extend(glob.glob(os.path.join(VERIF, pat)))
    return sorted(out)


def tree_hash():
    h = hashlib.sha256()
    for p in _files_for_hash():
        # scratchpad.rs is rewritten by the pinned macro tests; it is an example target, hash it like the rest
        h.update(p.encode())
        h.update(b'\0')
        with open(p, 'rb') as f:
            h.update(hashlib.sha256(f.read()).digest())
    return h.hexdigest()[:16]


def sysroot():
    return subprocess.check_output(['rustc', '+nightly', '--print', 'sysroot'], text=True).strip()


def ensure_driver(log):
    """Build the driver if its binary is missing or older than its sources."""
    srcs = glob.glob(os.path.join(DRIVER_DIR, 'src', '*.rs')) + [os.path.join(DRIVER_DIR, 'Cargo.toml')]
    newest = max(os.path.getmtime(p) for p in srcs)
    if os.path.exists(DRIVER) and os.path.getmtime(DRIVER) >= newest:
        return
    log('building driver ...')
    env = dict(os.environ, CARGO_NET_OFFLINE='true')
    r = subprocess.run(['cargo', 'build', '--offline'], cwd=DRIVER_DIR, env=env, capture_output=True, text=True)
    if r.returncode != 0:
        sys.stderr.write(r.stderr[-4000:])
        raise SystemExit('CHECK-BROKEN: driver does not build')


def _cargo_check(args, facts_out, target, log, cwd=None):
    env = dict(os.environ)
    env.update({
        'LD_LIBRARY_PATH': sysroot() + '/lib',
        'RUSTFLAGS': '-Awarnings',
        'RUSTC_WRAPPER': DRIVER,
        'ASCENT_FACTS_OUT': facts_out,
        'ASCENT_FACTS_ROOTS': REPO.rstrip('/') + '/,' + CORPUS_WS.rstrip('/') + '/',
        'CARGO_TARGET_DIR': target,
        'CARGO_NET_OFFLINE': 'true',
    })
    env.pop('RUSTC_WORKSPACE_WRAPPER', None)
    cmd = ['cargo', '+nightly', 'check', '--offline', '--message-format=short'] + args
    t0 = time.time()
    r = subprocess.run(cmd, env=env, cwd=cwd, capture_output=True, text=True)
    log('  %s -> rc=%d in %.1fs' % (' '.join(cmd[2:]), r.returncode, time.time() - t0))
    return r


def ensure_facts(log=lambda s: None, need_corpus=True):
    """Returns (facts_dir, meta). Extracts when no cached extraction for the current tree hash exists.
    The corpus is always extracted together with /repo (one cache entry serves every check)."""
    need_corpus = True
    os.makedirs(WORK, exist_ok=True)
    lockf = open(os.path.join(WORK, 'lock'), 'w')
    fcntl.flock(lockf, fcntl.LOCK_EX)
    try:
        ensure_driver(log)
        if need_corpus:
            gen_corpus(log)
        h = tree_hash()
        fdir = os.path.join(WORK, 'facts', h)
        done = os.path.join(fdir, 'DONE.json')
        if os.path.exists(done):
            meta = json.load(open(done))
            if (not need_corpus) or meta.get('corpus'):
                return fdir, meta
        # drop older extractions (disk)
        fbase = os.path.join(WORK, 'facts')
        if os.path.isdir(fbase):
            # keep the two most recent other extractions (switching between a patched and the unpatched tree), drop the rest (disk)
            others = sorted((d for d in os.listdir(fbase) if d != h), key=lambda d: os.path.getmtime(os.path.join(fbase, d)), reverse=True)
            for d in others[2:]:
                shutil.rmtree(os.path.join(fbase, d), ignore_errors=True)
        shutil.rmtree(fdir, ignore_errors=True)
        os.makedirs(os.path.join(fdir, 'repo'))
        os.makedirs(os.path.join(fdir, 'corpus'))
        target = os.path.join(WORK, 'target-facts')
        shutil.rmtree(target, ignore_errors=True)   # cargo's freshness cache would skip the wrapper
        log('extracting facts for tree %s ...' % h)
        t0 = time.time()
        meta = {'hash': h, 'repo_ok': False, 'corpus': False, 'errors': []}
        r = _cargo_check(['--manifest-path', os.path.join(REPO, 'Cargo.toml'), '--workspace', '--lib', '--examples', '--tests'],
                         os.path.join(fdir, 'repo'), target, log)
        meta['repo_ok'] = (r.returncode == 0)
        if r.returncode != 0:
            meta['errors'].append({'stage': 'repo', 'stderr': r.stderr[-6000:]})
        if need_corpus and os.path.exists(os.path.join(CORPUS_WS, 'Cargo.toml')):
            r2 = _cargo_check(['--workspace', '--lib', '--keep-going'], os.path.join(fdir, 'corpus'), target, log, cwd=CORPUS_WS)
            meta['corpus'] = True
            meta['corpus_ok'] = (r2.returncode == 0)
            if r2.returncode != 0:
                meta['errors'].append({'stage': 'corpus', 'stderr': r2.stderr[-12000:]})
                have = {f.split('.')[0] for f in os.listdir(os.path.join(fdir, 'corpus'))}
                members = [d for d in sorted(os.listdir(CORPUS_WS)) if os.path.isdir(os.path.join(CORPUS_WS, d, 'src'))]
                meta['corpus_failed'] = [m for m in members if m not in have]
                errs = {}
                for line in r2.stderr.splitlines():
                    for m in meta['corpus_failed']:
                        if line.startswith(m + '/') and ' error' in line and m not in errs:
                            errs[m] = line[:400]
                meta['corpus_first_error'] = errs
        shutil.rmtree(target, ignore_errors=True)
        meta['extract_s'] = round(time.time() - t0, 1)
        meta['files'] = sorted(os.listdir(os.path.join(fdir, 'repo'))) + sorted(os.listdir(os.path.join(fdir, 'corpus')))
        json.dump(meta, open(done, 'w'), indent=1)
        return fdir, meta
    finally:
        fcntl.flock(lockf, fcntl.LOCK_UN)
        lockf.close()


def gen_corpus(log):
    """(Re)generate the corpus workspace when the generator is newer than its output."""
    gen = os.path.join(VERIF, 'corpus', 'gen_corpus.py')
    if not os.path.exists(gen):
        return
    srcs = [gen] + glob.glob(os.path.join(VERIF, 'corpus', 'descriptions', '*.py')) + glob.glob(os.path.join(VERIF, 'corpus', '*.py'))
    stamp = os.path.join(CORPUS_WS, '.stamp')
    lock_src = os.path.join(REPO, 'Cargo.lock')
    newest = max(os.path.getmtime(p) for p in srcs)
    if os.path.exists(stamp) and os.path.getmtime(stamp) >= newest:
        # Cargo.lock copy must follow the repo's
        dst = os.path.join(CORPUS_WS, 'Cargo.lock')
        if os.path.exists(lock_src) and (not os.path.exists(dst)):
            shutil.copy(lock_src, dst)
        return
    log('generating corpus ...')
    r = subprocess.run([sys.executable, gen, CORPUS_WS], capture_output=True, text=True)
    if r.returncode != 0:
        sys.stderr.write(r.stdout[-3000:] + r.stderr[-3000:])
        raise SystemExit('CHECK-BROKEN: corpus generator failed')
    if os.path.exists(lock_src):
        shutil.copy(lock_src, os.path.join(CORPUS_WS, 'Cargo.lock'))
    open(stamp, 'w').write(str(time.time()))


if __name__ == '__main__':
    fdir, meta = ensure_facts(log=lambda s: print(s, file=sys.stderr))
    print(fdir)
    print(json.dumps({k: v for k, v in meta.items() if k != 'errors'}, indent=1))
    for e in meta.get('errors', []):
        print(e['stage'], e['stderr'][-3000:])
