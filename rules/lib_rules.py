"""Rules over the run-time library crate `ascent` (index building blocks): L1 L2 L3 L4 L6 L7 L8 and the default
merge (G5-default). Properties C19, C05 (L1), C02 (L1), C20 (L8)."""
import re
from facts import walk, callee, children
from tree import strip, root_local, place_path, cname, iname, lit_bool, pat_bindings
from core import Broken

CONSUMING = {'insert', 'push', 'append', 'extend', 'or_insert', 'or_insert_with', 'push_back', 'extend_from_slice'}
# insertions that assume the key is absent: in a merge the two sides may share keys (a lattice key improved in place is
# re-inserted into `new` while present in `total`), so these create duplicate buckets
UNCHECKED_INSERTS = {'insert_unique_unchecked', 'insert_hashed_nocheck', 'insert_with_hasher', 'insert_unique'}


def chain_root(n):
    """root local of a receiver / place chain (looks through any method-call receiver, field, index, borrow, deref)"""
    while True:
        n = strip(n)
        k = n.get('k')
        if k == 'path':
            return n if n.get('res') == 'local' else None
        if k == 'block' and not n['ss'] and 'e' in n:   # `unsafe { expr }`
            n = n['e']; continue
        if k in ('field', 'addr', 'index', 'cast'):
            n = n['e']; continue
        if k == 'unary' and n['op'] == 'deref':
            n = n['e']; continue
        if k == 'mcall':
            n = n['r']; continue
        if k == 'call' and n['a']:
            c = callee(n)
            nm = cname(c)
            if nm.endswith(('::new', 'make_mut', '::from', 'into_inner')) and len(n['a']) == 1:
                n = n['a'][0]; continue
            return None
        return None


def mentions_role(n, roles, wanted):
    for x, _ in walk(n):
        if x.get('k') == 'path' and x.get('res') == 'local' and roles.get(x['id']) in wanted:
            return True
    return False


def propagate_roles(tree, roles):
    """let x = <expr rooted in a local with a role>  =>  x inherits the role; closure tuple params over zip inherit by position;
    match arms over an expression with role R bind payloads with role R+'.entry' (entries of maps); for-loops over drain() of a
    FROM-role map bind DRAINED."""
    changed = True
    guard = 0
    while changed and guard < 10:
        changed = False
        guard += 1
        for n, parents in walk(tree):
            k = n.get('k')
            if k == 'let' and 'i' in n and 'ss' not in n:
                r = chain_root(n['i'])
                if r is not None and r['id'] in roles:
                    role = roles[r['id']]
                    for b in pat_bindings(n['p']):
                        if b['id'] not in roles:
                            roles[b['id']] = role; changed = True
            if k == 'match':
                scr = strip(n['e'])
                # for-loop desugaring: match into_iter(X) { mut iter => loop { match next(&mut iter) { Some(pat) => .. } } }
                if n.get('src') == 'for':
                    c = callee(scr)
                    if c and cname(c).endswith('IntoIterator::into_iter') and scr['a']:
                        src = strip(scr['a'][0])
                        r = chain_root(src)
                        if r is not None and roles.get(r['id']) == 'FROM':
                            # iterating FROM's drain()/into_iter(): the loop variable(s) are drained values
                            for lp, _ in walk(n['arms'][0]['b']):
                                if lp.get('k') == 'match' and lp.get('src') == 'for':
                                    for a in lp['arms']:
                                        for b in pat_bindings(a['p']):
                                            if b['id'] not in roles:
                                                roles[b['id']] = 'DRAINED'; changed = True
                                    break
                else:
                    r = chain_root(scr)
                    if r is not None and r['id'] in roles and roles[r['id']] in ('TO', 'SELF'):
                        for a in n['arms']:
                            for b in pat_bindings(a['p']):
                                if b['id'] not in roles:
                                    roles[b['id']] = roles[r['id']]; changed = True
            if k == 'mcall' and n['m'] in ('for_each', 'map', 'try_for_each') and n['a'] and strip(n['a'][0]).get('k') == 'closure':
                clo = strip(n['a'][0])
                recv = strip(n['r'])
                if recv.get('k') == 'mcall' and recv['m'] == 'zip' and clo['ps'] and clo['ps'][0].get('k') == 'tup' and len(clo['ps'][0]['ps']) == 2:
                    ra, rb = chain_root(recv['r']), chain_root(recv['a'][0])
                    pa, pb = clo['ps'][0]['ps']
                    for rr, pp_ in ((ra, pa), (rb, pb)):
                        if rr is not None and rr['id'] in roles:
                            for b in pat_bindings(pp_):
                                if b['id'] not in roles:
                                    roles[b['id']] = roles[rr['id']]; changed = True
                elif recv.get('k') == 'mcall' and recv['m'] == 'enumerate' and clo['ps'] and clo['ps'][0].get('k') == 'tup' and len(clo['ps'][0]['ps']) == 2:
                    # `X.iter_mut().enumerate().for_each(|(i, slot)| ..)`: the slot is a part of X
                    rr = chain_root(recv['r'])
                    if rr is not None and rr['id'] in roles:
                        for b in pat_bindings(clo['ps'][0]['ps'][1]):
                            if b['id'] not in roles:
                                roles[b['id']] = roles[rr['id']]; changed = True
                elif clo['ps']:
                    rr = chain_root(recv)
                    if rr is not None and roles.get(rr['id']) == 'FROM' and _has_drain(recv):
                        for b in pat_bindings(clo['ps'][0]):
                            if b['id'] not in roles:
                                roles[b['id']] = 'DRAINED'; changed = True
    return roles


def _has_drain(n):
    for x, _ in walk(n):
        if x.get('k') == 'mcall' and x['m'] in ('drain', 'into_iter', 'drain_filter'):
            return True
    return False


def must_consume(n, roles, recv_roles, val_roles):
    """Must-analysis on the tree: on every path through n, a consuming call (insert/push/append/extend/..) whose receiver has
    a role in recv_roles receives an argument that mentions a local with a role in val_roles."""
    n = strip(n)
    k = n.get('k')
    if k == 'block':
        for s in n['ss']:
            if s['k'] in ('expr', 'semi') and must_consume(s['e'], roles, recv_roles, val_roles):
                return True
            if s['k'] == 'let' and 'i' in s and must_consume(s['i'], roles, recv_roles, val_roles):
                return True
            # a statement that can leave the loop body early (`if .. { continue }`) before anything was consumed: the entries on
            # that path are dropped - unless the guard says they are redundant (empty, or a subset of what the receiver holds)
            if s['k'] in ('expr', 'semi') and _may_exit_early(s['e'], roles, recv_roles, val_roles):
                return False
        return 'e' in n and must_consume(n['e'], roles, recv_roles, val_roles)
    if k == 'if':
        if must_consume(n['c'], roles, recv_roles, val_roles):
            return True
        return 'el' in n and must_consume(n['th'], roles, recv_roles, val_roles) and must_consume(n['el'], roles, recv_roles, val_roles)
    if k == 'match':
        if must_consume(n['e'], roles, recv_roles, val_roles):
            return True
        arms = [a for a in n['arms'] if not _arm_diverges_or_break(a)]
        if n.get('src') == 'for':
            return False
        return bool(arms) and all(must_consume(a['b'], roles, recv_roles, val_roles) for a in arms)
    if k in ('closure', 'loop'):
        return False
    if k == 'mcall':
        if n['m'] in CONSUMING:
            r = chain_root(n['r'])
            if r is not None and roles.get(r['id']) in recv_roles and any(mentions_role(a, roles, val_roles) for a in n['a']):
                return True
        return any(must_consume(c, roles, recv_roles, val_roles) for c in [n['r']] + n['a'])
    if k == 'call':
        return any(must_consume(c, roles, recv_roles, val_roles) for c in n['a'])
    if k == 'assign':
        # `*slot = value` into a TO/SELF rooted place
        r = chain_root(n['l'])
        if r is not None and roles.get(r['id']) in recv_roles and mentions_role(n['r'], roles, val_roles):
            return True
        return must_consume(n['r'], roles, recv_roles, val_roles)
    return any(must_consume(c, roles, recv_roles, val_roles) for c in children(n) if isinstance(c, dict) and c.get('k') not in ('let',))


def _may_exit_early(e, roles, recv_roles, val_roles):
    """an `if <cond> { continue / break / return }` (no else) whose condition does not establish that the value is redundant"""
    from guards import diverges
    e = strip(e)
    if e.get('k') != 'if' or 'el' in e or not diverges(e['th']):
        return False
    # a panic (assert!) is loud, not a dropped value: only continue / break / return leave quietly
    if not any(y.get('k') in ('continue', 'break', 'ret') for y, _ in walk(e['th'])):
        return False
    c = strip(e['c'])
    neg = False
    while c.get('k') == 'unary' and c.get('op') == 'not':
        c = strip(c['e']); neg = not neg
    if c.get('k') == 'mcall' and not neg:
        r = chain_root(c['r'])
        a = chain_root(c['a'][0]) if c.get('a') else None
        rr = roles.get(r['id']) if r is not None else None
        ra = roles.get(a['id']) if a is not None else None
        if c['m'] == 'is_empty' and rr in val_roles:
            return False                                     # nothing to carry over
        if c['m'] == 'is_subset' and rr in val_roles and ra is not None and (ra in recv_roles or ra.split('.')[0] in recv_roles):
            return False                                     # value is contained in what the receiver holds
        if c['m'] == 'is_superset' and ra in val_roles and rr is not None and (rr in recv_roles or rr.split('.')[0] in recv_roles):
            return False
    return True


def _arm_diverges_or_break(a):
    from guards import diverges
    return diverges(a['b'])


def _trait_impl_bodies(cr, trait_suffix, method):
    for p, b in cr.bodies.items():
        if b['name'] == method and (b.get('trait_of') or '').endswith(trait_suffix) and b.get('impl_of'):
            yield b


def impl_self_ty(body):
    io = body.get('impl_of') or ''
    if io.startswith('<') and ' as ' in io:
        return io[1:io.rindex(' as ')]
    if '<impl ' in io and ' for ' in io:
        return io[io.index(' for ') + 5:io.rindex('>')]
    return io


def is_forwarder(cr, b):
    """`impl Trait for &T / &mut T` forwarding to `(**self).method(..)`"""
    st = impl_self_ty(b)
    return st.startswith('&')


# ------------------------------------------------------------------ L4 / G5-default

def check_L4(ctx, rep):
    cr = ctx.lib('ascent')
    n = 0
    for b in _trait_impl_bodies(cr, 'internal::RelIndexMerge', 'move_index_contents'):
        st = impl_self_ty(b)
        rep.functions.add(b['path'])
        if is_forwarder(cr, b):
            _check_forwarder(cr, b, rep, 'L4')
            continue
        if st == '()':
            rep.inst('L4', '%s: unit type, nothing to move' % b['path'])
            continue
        n += 1
        ps = b['params']
        if len(ps) != 2 or ps[0].get('k') != 'bind' or ps[1].get('k') != 'bind':
            raise Broken('move_index_contents with unexpected parameters: ' + b['path'])
        roles = {ps[0]['id']: 'FROM', ps[1]['id']: 'TO'}
        propagate_roles(b['tree'], roles)
        where = b['path']
        # O1: something drains FROM completely
        drained = False
        loops = []
        for x, parents in walk(b['tree']):
            if x.get('k') == 'mcall' and x['m'] in ('drain', 'into_iter'):
                r = chain_root(x['r'])
                if r is not None and roles.get(r['id']) == 'FROM' and not x['a']:
                    drained = True
                    loops.append((x, parents))
            if x.get('k') == 'mcall' and x['m'] in ('append', 'extend'):
                r, a = chain_root(x['r']), (chain_root(x['a'][0]) if x['a'] else None)
                if r is not None and a is not None and roles.get(r['id']) == 'TO' and roles.get(a['id']) == 'FROM':
                    drained = True
                    # the append happens on EVERY path through the per-slot body (closure of the zip / function body): a size swap
                    # only exchanges the two sides, what is then in `from` still has to go into `to`
                    scope = None
                    for p_ in reversed(parents):
                        if p_.get('k') == 'closure':
                            scope = p_['b']; break
                    if scope is None:
                        scope = b['tree']
                    always = must_consume(scope, roles, ('TO',), ('FROM',))
                    rep.inst('L4', '%s: whole-container %s(from) into to, on every path: %s' % (where, x['m'], always))
                    if not always:
                        rep.viol('L4', where, 'append-not-on-every-path',
                                 '`to.%s(from)` is skipped on some path (after a size swap `from` holds the former contents of `to`): that part of the '
                                 'merge is left behind in `from`' % x['m'], loc=cr.loc(x))
        if not drained:
            rep.viol('L4', where, 'no-drain', 'move_index_contents does not drain `from` (no from.drain()/append(from))')
            continue
        # O2: every drained entry reaches `to`
        for x, parents in loops:
            # the loop body: enclosing for-desugar match (or for_each closure)
            body = None
            for p in reversed(parents):
                if p.get('k') == 'match' and p.get('src') == 'for':
                    # inner `match next()` Some-arm
                    for lp, _ in walk(p['arms'][0]['b']):
                        if lp.get('k') == 'match' and lp.get('src') == 'for':
                            body = [a['b'] for a in lp['arms'] if pat_bindings(a['p'])]
                            break
                    break
                if p.get('k') == 'mcall' and p['m'] == 'for_each' and strip(p['a'][0]).get('k') == 'closure' and p['r'] is not None:
                    rr = chain_root(p['r'])
                    if rr is not None and roles.get(rr['id']) == 'FROM' and _is_within(x, p['r']):
                        body = [strip(p['a'][0])['b']]
                        break
            if not body:
                rep.viol('L4', where, 'drain-loop', 'cannot find the loop that consumes from.drain() (unrecognised idiom)', loc=cr.loc(x))
                continue
            ok = all(must_consume(bd, roles, ('TO',), ('DRAINED',)) for bd in body)
            rep.inst('L4', '%s: drain loop, every path inserts the drained entry into `to`: %s' % (where, ok))
            rep.call_sites += 1
            if not ok:
                rep.viol('L4', where, 'drained-entry-dropped',
                         'a path through the merge loop drops a drained (key, value) instead of inserting it into `to`', loc=cr.loc(x))
        # O2b: no key-uniqueness assumption when inserting into `to`
        for x, parents in walk(b['tree']):
            if x.get('k') == 'mcall' and x['m'] in UNCHECKED_INSERTS:
                r = chain_root(x['r'])
                if r is not None and roles.get(r['id']) == 'TO':
                    rep.viol('L4', where, 'unchecked-insert:' + x['m'],
                             '`%s` inserts without looking the key up: keys present on both sides of a merge end up twice in `to`' % x['m'], loc=cr.loc(x))
        # O2c: a multi-valued index (the value of a key is a collection of rows) is merged per key: `to.insert(k, v)` replaces what `to`
        # already holds for a key present on both sides (total's rows of that key are lost); accepted: entry(k) .. extend / append
        for x, parents in walk(b['tree']):
            if x.get('k') == 'mcall' and x['m'] == 'insert' and len(x['a']) == 2:
                r = chain_root(x['r'])
                if r is None or roles.get(r['id']) != 'TO':
                    continue
                vty = (cr.ty(x['a'][1]) or '').replace('&mut ', '').replace('&', '')
                coll = any(vty.startswith(t) or ('::' + t) in vty.split('<')[0] + '<' for t in ('std::collections::HashSet<', 'std::vec::Vec<', 'hashbrown::HashSet<',
                           'std::collections::BTreeSet<', 'std::collections::VecDeque<', 'smallvec::SmallVec<')) or vty.split('<')[0].endswith(('HashSet', 'Vec', 'BTreeSet'))
                rep.inst('L4', '%s: to.insert(k, v) with a value of type %s (%s)' % (where, vty[:50], 'collection: overwrites' if coll else 'single value'))
                if coll:
                    rep.viol('L4', where, 'overwriting-insert',
                             '`to.insert(k, v)` with a collection value (%s) replaces the rows `to` already holds for a key present on both sides of the '
                             'merge instead of adding to them' % vty[:60], loc=cr.loc(x))
        # O3: swaps exchange from/to themselves (or drained value with the destination slot), never one side with a fresh value
        for x, parents in walk(b['tree']):
            c = callee(x)
            if x.get('k') == 'call' and c and cname(c).endswith('mem::swap'):
                ra, rb = chain_root(x['a'][0]), chain_root(x['a'][1])
                r1 = roles.get(ra['id']) if ra is not None else None
                r2 = roles.get(rb['id']) if rb is not None else None
                ok = {r1, r2} in ({'FROM', 'TO'}, {'DRAINED', 'TO'})
                rep.inst('L4', '%s: swap(%s, %s)' % (where, r1, r2))
                if not ok:
                    rep.viol('L4', where, 'swap(%s,%s)' % (r1, r2),
                             'size-swap exchanges %s with %s: one side of the merge is replaced instead of swapped' % (r1, r2), loc=cr.loc(x))
        # O4: shard-wise zip needs a shard-count equality assertion
        zips = False
        for x, parents in walk(b['tree']):
            if x.get('k') == 'mcall' and x['m'] == 'zip':
                ra, rb = chain_root(x['r']), chain_root(x['a'][0])
                if ra is not None and rb is not None and {roles.get(ra['id']), roles.get(rb['id'])} == {'FROM', 'TO'}:
                    zips = True
        if zips:
            asserted = False
            for x, parents in walk(b['tree']):
                c = callee(x)
                if x.get('k') == 'call' and c and cname(c).endswith('panicking::assert_failed'):
                    for p in reversed(parents):
                        if p.get('k') == 'match' and strip(p['e']).get('k') == 'tup':
                            es = strip(p['e'])['es']
                            rs = {roles.get(chain_root(e)['id']) if chain_root(e) is not None else None for e in es}
                            # .. and what is compared are lengths (`X.len()`), not some other quantity of the two sides
                            def is_len(e):
                                e = strip(e)
                                while e.get('k') in ('addr',) or (e.get('k') == 'unary' and e.get('op') == 'deref'):
                                    e = strip(e['e'])
                                return e.get('k') == 'mcall' and e['m'] == 'len'
                            if rs == {'FROM', 'TO'} and all(is_len(e) for e in es):
                                asserted = True
                            break
            rep.inst('L4', '%s: shard-wise zip guarded by an equality assertion between from and to: %s' % (where, asserted))
            if not asserted:
                rep.viol('L4', where, 'zip-without-assert',
                         'shards of `from` and `to` are zipped without asserting that both have the same number of shards '
                         '(`X.len()` on both sides; zip truncates silently)')
    rep.floor('L4', 14, 'move_index_contents obligations')
    # default merge: total = total U delta; delta = new; new = {}
    tb = cr.bodies.get('internal::RelIndexMerge::merge_delta_to_total_new_to_delta')
    if tb is None:
        raise Broken('default RelIndexMerge::merge_delta_to_total_new_to_delta not found')
    rep.functions.add(tb['path'])
    res = abstract_merge(cr, tb)
    rep.inst('G5.default', 'default merge: %s' % (res,))
    if res != {'total': frozenset('TD'), 'delta': frozenset('N'), 'new': frozenset()}:
        rep.viol('G5.default', tb['path'], 'shift',
                 'the default merge leaves total=%s delta=%s new=%s (expected total=T+D, delta=N, new=empty)' % (
                     ''.join(sorted(res.get('total', '?'))), ''.join(sorted(res.get('delta', '?'))), ''.join(sorted(res.get('new', '?')))))


def _is_within(x, tree):
    for y, _ in walk(tree):
        if y is x:
            return True
    return False


def abstract_merge(cr, body):
    """abstract interpretation of a merge function over the three set variables; ops: move_index_contents(a,b): b|=a, a={};
    mem::swap(a,b)."""
    ps = body['params']
    names = ['new', 'delta', 'total']
    st = {}
    idmap = {}
    for p, nm, init in zip(ps, names, ('N', 'D', 'T')):
        if p.get('k') != 'bind':
            return {}
        idmap[p['id']] = nm
        st[nm] = frozenset(init)
    t = strip(body['tree'])
    stmts = []
    if t.get('k') == 'block':
        stmts = [s['e'] for s in t['ss'] if s['k'] in ('expr', 'semi')] + ([t['e']] if 'e' in t else [])
    else:
        stmts = [t]
    for e in stmts:
        e = strip(e)
        c = callee(e)
        if e.get('k') == 'call' and c:
            nm = cname(c)
            args = [chain_root(a) for a in e['a']]
            if any(a is None or a['id'] not in idmap for a in args):
                return {'?': frozenset('?')}
            a = [idmap[x['id']] for x in args]
            if nm.endswith('RelIndexMerge::move_index_contents') and len(a) == 2:
                st[a[1]] = st[a[1]] | st[a[0]]; st[a[0]] = frozenset()
            elif nm.endswith('mem::swap') and len(a) == 2:
                st[a[0]], st[a[1]] = st[a[1]], st[a[0]]
            else:
                return {'?': frozenset('?')}
        else:
            return {'?': frozenset('?')}
    return st


def _check_forwarder(cr, b, rep, rule):
    """&T / &mut T forwarders: call the same-named trait method with the parameters in order"""
    ps = [p.get('id') for p in b['params']]
    found = False
    for x, _ in walk(b['tree']):
        c = callee(x)
        if c and cname(c).split('::')[-1] == b['name']:
            args = ([x['r']] if x['k'] == 'mcall' else []) + x['a']
            ids = [(chain_root(a) or {}).get('id') for a in args]
            found = True
            ok = ids == ps
            rep.inst(rule + '.fwd', '%s forwards %s with arguments in order: %s' % (b['path'], b['name'], ok))
            if not ok:
                rep.viol(rule, b['path'], 'forwarder-args', 'forwarding impl passes its parameters in a different order / different values')
    if not found:
        rep.viol(rule, b['path'], 'forwarder', 'forwarding impl does not call the underlying %s' % b['name'])


# ------------------------------------------------------------------ L1

ENTRY_OPS = ('::entry', 'from_key_hashed_nocheck', 'from_key', 'from_hash')
LOOKUPS = {'get', 'contains_key', 'get_mut', 'get_cloned', 'get_key_value', 'contains'}


def check_L1(ctx, rep):
    cr = ctx.lib('ascent')
    cores = 0
    for trait, conc in (('internal::RelFullIndexWrite', False), ('internal::CRelFullIndexWrite', True)):
        for b in _trait_impl_bodies(cr, trait, 'insert_if_not_present'):
            rep.functions.add(b['path'])
            if is_forwarder(cr, b):
                _check_forwarder(cr, b, rep, 'L1')
                continue
            # follow delegation to an inherent helper of the same type
            core, chain = b, [b['path']]
            for _ in range(3):
                t = core['tree']
                deleg = None
                calls = [(x, callee(x)) for x, _ in walk(t) if callee(x)]
                own = [(x, c) for x, c in calls if (c.get('d') or '') in cr.bodies and 'insert_if_not_present' in c['d']]
                if own:
                    x, c = own[0]
                    args = ([x['r']] if x['k'] == 'mcall' else []) + x['a']
                    ids = [(chain_root(a) or {}).get('id') for a in args]
                    if ids != [p.get('id') for p in core['params']]:
                        rep.viol('L1', core['path'], 'delegation-args', 'delegates with different arguments')
                    core = cr.bodies[c['d']]
                    chain.append(core['path'])
                    rep.functions.add(core['path'])
                else:
                    break
            cores += 1
            _check_insert_core(cr, core, rep, conc, ' <- '.join(reversed(chain)))
    rep.floor('L1.core', 3, 'insert_if_not_present implementations of ascent')


def _check_insert_core(cr, b, rep, conc, chain):
    where = b['path']
    ps = b['params']
    self_id = ps[0].get('id')
    key_id, val_id = ps[1].get('id'), ps[2].get('id')
    roles = {self_id: 'SELF', key_id: 'KEY', val_id: 'VAL'}
    propagate_roles(b['tree'], roles)
    entry_matches = []
    for x, parents in walk(b['tree']):
        if x.get('k') == 'match' and x.get('src') == 'normal':
            c = callee(strip(x['e']))
            if c and cname(c).endswith(ENTRY_OPS):
                r = chain_root(x['e'])
                if r is not None and roles.get(r['id']) == 'SELF':
                    entry_matches.append((x, parents))
    rep.inst('L1.core', '%s: %d entry operation(s)' % (chain, len(entry_matches)))
    if len(entry_matches) != 1:
        rep.viol('L1', where, 'entry-op', 'insert-if-absent is not built on exactly one map-entry operation (found %d): '
                 'check and insert are not one critical section' % len(entry_matches))
        return
    m, parents = entry_matches[0]
    # no separate lookups on self
    for x, _ in walk(b['tree']):
        if x.get('k') == 'mcall' and x['m'] in LOOKUPS:
            r = chain_root(x['r'])
            if r is not None and roles.get(r['id']) == 'SELF':
                rep.viol('L1', where, 'separate-lookup:' + x['m'],
                         'a separate `%s` on the map precedes the insertion (check-then-act)' % x['m'], loc=cr.loc(x))
        if x.get('k') == 'mcall' and x['m'] == 'insert':
            r = chain_root(x['r'])
            # insert directly on the map (not through the vacant entry)
            if r is not None and roles.get(r['id']) == 'SELF' and not _is_within(x, m):
                rep.viol('L1', where, 'plain-insert', 'plain map insert outside the entry match', loc=cr.loc(x))
    occ = vac = None
    for a in m['arms']:
        d = ((a['p'].get('path') or {}).get('d') or '')
        if d.endswith('Occupied'):
            occ = a
        elif d.endswith('Vacant'):
            vac = a
    if occ is None or vac is None:
        rep.viol('L1', where, 'entry-arms', 'entry match does not distinguish Occupied / Vacant')
        return
    ov = _tail_bool(occ['b'])
    vv = _tail_bool(vac['b'])
    occ_writes = any(x.get('k') == 'mcall' and x['m'] in CONSUMING for x, _ in walk(occ['b']))
    vb = pat_bindings(vac['p'])
    vroles = dict(roles)
    for bb in vb:
        vroles[bb['id']] = 'VACANT'
    vac_inserts = must_consume(vac['b'], vroles, ('VACANT',), ('VAL',))
    rep.inst('L1.core', '%s: occupied -> %s (writes: %s); vacant -> inserts value: %s, returns %s' % (where, ov, occ_writes, vac_inserts, vv))
    if ov is not False or occ_writes:
        rep.viol('L1', where, 'occupied-arm', 'occupied arm must return false without writing (returns %s, writes=%s)' % (ov, occ_writes))
    if vv is not True or not vac_inserts:
        rep.viol('L1', where, 'vacant-arm', 'vacant arm must insert the value and return true (inserts=%s, returns %s)' % (vac_inserts, vv))
    # the match value is the function result
    if not _is_result(b['tree'], m):
        rep.viol('L1', where, 'result', 'the outcome of the entry match is not what the function returns')
    if conc:
        # the entry is taken on a shard obtained under its write lock, or on DashMap::entry (locks the shard)
        scr = strip(m['e'])
        locked = False
        for x, _ in walk(scr):
            c = callee(x)
            if c and cname(c).endswith('DashMap::<K, V, S>::entry'):
                locked = True
            if x.get('k') == 'path' and x.get('res') == 'local':
                # local bound from _yield_write_shard
                for y, _ in walk(b['tree']):
                    if y.get('k') == 'let' and 'i' in y and y['p'].get('k') == 'bind' and y['p']['id'] == x['id']:
                        for z, _ in walk(y['i']):
                            cz = callee(z)
                            if cz and cname(cz).endswith('_yield_write_shard'):
                                locked = True
        rep.inst('L1.core', '%s: entry taken under the shard write lock: %s' % (where, locked))
        if not locked:
            rep.viol('L1', where, 'no-shard-lock', 'concurrent insert-if-absent does not hold the shard write lock across lookup and insert')


def _tail_bool(n):
    n = strip(n)
    while n.get('k') == 'block' and 'e' in n:
        n = strip(n['e'])
    return lit_bool(n)


def _is_result(tree, m):
    t = strip(tree)
    while True:
        if t is m:
            return True
        if t.get('k') == 'block':
            if 'e' in t:
                tail = strip(t['e'])
                if tail is m:
                    return True
                if tail.get('k') == 'path' and tail.get('res') == 'local':
                    # let res = <m>; res
                    for s in t['ss']:
                        if s['k'] == 'let' and s['p'].get('k') == 'bind' and s['p']['id'] == tail['id'] and 'i' in s:
                            return strip(s['i']) is m or _is_result(s['i'], m)
                    return False
                t = tail
                continue
            return False
        return False


# ------------------------------------------------------------------ L2 / L3

def classify_writers(ctx, rep):
    """index type -> 'accumulating' | 'idempotent' | 'noop' for every (C)RelIndexWrite::index_insert impl; derived from
    which container operation finally receives the value (L2). Also checks L3 (the value is consumed on every path)."""
    out = {}
    for crname in ('ascent', 'ascent_byods_rels'):
        cr = ctx.lib(crname)
        for trait in ('internal::RelIndexWrite', 'internal::CRelIndexWrite'):
            for b in _trait_impl_bodies(cr, trait, 'index_insert'):
                st = impl_self_ty(b)
                rep.functions.add(b['path'])
                if st.startswith('&') and crname == 'ascent':
                    _check_forwarder(cr, b, rep, 'L3')
                    continue
                ops = _reach_container_ops(cr, b, set())
                if any(o.endswith(('Vec::<T, A>::push', 'Vec::<T, A>::append', 'VecDeque::<T, A>::push_back')) for o in ops):
                    cls = 'accumulating'
                elif any(o.split('::')[-1] in ('insert', 'or_insert', 'or_insert_with', 'extend') for o in ops):
                    cls = 'idempotent'
                elif not ops:
                    cls = 'noop'
                else:
                    cls = 'other'
                out[(trait.split('::')[-1], st)] = cls
                rep.inst('L2', '%s for %s: %s' % (trait.split('::')[-1], st, cls))
                if crname != 'ascent':
                    continue
                # L3: value consumed on every path
                ps = b['params']
                roles = {ps[0]['id']: 'SELF', ps[1].get('id'): 'KEY', ps[2].get('id'): 'VAL'}
                core = b
                # follow a 1-step delegation to an inherent method (self.insert(key, value))
                t = strip(b['tree'])
                for x, _ in walk(t):
                    c = callee(x)
                    if c and c.get('d') in cr.bodies and x.get('k') == 'mcall' and chain_root(x['r']) is not None and chain_root(x['r'])['id'] == ps[0]['id']:
                        args = x['a']
                        if len(args) == 2 and (chain_root(args[1]) or {}).get('id') == ps[2].get('id') and cr.bodies[c['d']]['name'] in ('insert', 'insert2'):
                            core = cr.bodies[c['d']]
                            cps = core['params']
                            roles = {cps[0]['id']: 'SELF', cps[1].get('id'): 'KEY', cps[2].get('id'): 'VAL'}
                            rep.functions.add(core['path'])
                propagate_roles(core['tree'], roles)
                # entry bindings (occupied / vacant) count as SELF-rooted
                ok = must_consume(core['tree'], roles, ('SELF',), ('VAL',))
                if not ok:
                    # vec![value] / SharedValue::new(vec![value]) handed to a vacant entry: `value` mentioned in an argument tree
                    ok = _every_arm_mentions(core['tree'], roles)
                rep.inst('L3', '%s: value reaches a container insertion on every path: %s' % (core['path'], ok))
                if not ok:
                    rep.viol('L3', core['path'], 'value-dropped', 'index_insert drops its value on some path')
    return out


def _every_arm_mentions(tree, roles):
    """fallback for L3: every arm of the top-level entry match contains a consuming call whose arguments mention VAL"""
    for x, _ in walk(tree):
        if x.get('k') == 'match' and x.get('src') == 'normal':
            arms_ok = []
            for a in x['arms']:
                got = False
                for y, _ in walk(a['b']):
                    if y.get('k') == 'mcall' and y['m'] in CONSUMING and any(mentions_role(z, roles, ('VAL',)) for z in y['a']):
                        got = True
                arms_ok.append(got)
            return bool(arms_ok) and all(arms_ok)
    return False


def _reach_container_ops(cr, b, seen, depth=0):
    ops = set()
    if b['path'] in seen or depth > 3:
        return ops
    seen.add(b['path'])
    for x, _ in walk(b['tree']):
        c = callee(x)
        if not c:
            continue
        nm = c.get('i') or c.get('d') or ''
        last = nm.split('::')[-1]
        if last in CONSUMING:
            ops.add(nm)
        d = c.get('d')
        if d in cr.bodies and d != b['path']:
            ops |= _reach_container_ops(cr, cr.bodies[d], seen, depth + 1)
    return ops


# ------------------------------------------------------------------ L6

def check_L6(ctx, rep):
    cr = ctx.lib('ascent')
    for meth, src_v, dst_v, conv in (('freeze', 'Unfrozen', 'Frozen', 'into_read_only'), ('unfreeze', 'Frozen', 'Unfrozen', 'into_inner')):
        for b in _trait_impl_bodies(cr, 'internal::Freezable', meth):
            st = impl_self_ty(b)
            rep.functions.add(b['path'])
            ms = [x for x, _ in walk(b['tree']) if x.get('k') == 'match' and x.get('src') == 'normal']
            if not ms:
                # flag flavour: self.frozen = <bool>
                assigns = [x for x, _ in walk(b['tree']) if x.get('k') == 'assign']
                vals = [lit_bool(a['r']) for a in assigns]
                body_empty = not any(True for x, _ in walk(b['tree']) if x.get('k') in ('assign', 'call', 'mcall'))
                if body_empty:
                    rep.inst('L6', '%s: no-op (%s)' % (b['path'], st))
                    continue
                want = (meth == 'freeze')
                ok = len(assigns) == 1 and vals[0] is want
                rep.inst('L6', '%s: flag := %s' % (b['path'], vals))
                if not ok:
                    rep.viol('L6', b['path'], 'flag', '%s must set the frozen flag to %s' % (meth, want))
                continue
            m = ms[0]
            for a in m['arms']:
                d = ((a['p'].get('path') or {}).get('d') or '')
                var = d.split('::')[-1]
                binds = pat_bindings(a['p'])
                body = strip(a['b'])
                if var == src_v:
                    # must be  Self::<dst>(payload.<conv>())
                    ok = False
                    c = None
                    if body.get('k') == 'call':
                        f = strip(body['f'])
                        if f.get('k') == 'path' and (f.get('d') or '').endswith('::' + dst_v) and len(body['a']) == 1:
                            arg = strip(body['a'][0])
                            if arg.get('k') == 'mcall' and arg['m'] == conv and binds and (chain_root(arg['r']) or {}).get('id') == binds[0]['id']:
                                ok = True
                    rep.inst('L6', '%s: %s -> %s(payload.%s()): %s' % (b['path'], src_v, dst_v, conv, ok))
                    if not ok:
                        rep.viol('L6', b['path'], 'convert-' + src_v,
                                 '%s must turn %s(payload) into %s(payload.%s()) - the contents must be carried over' % (meth, src_v, dst_v, conv), loc=cr.loc(body))
                elif var == dst_v:
                    # identity: returns the matched value (or rebuilds the same variant from the payload)
                    ok = False
                    r = chain_root(body)
                    if body.get('k') == 'path' and body.get('res') == 'local':
                        ok = True
                    elif body.get('k') == 'call':
                        f = strip(body['f'])
                        if f.get('k') == 'path' and (f.get('d') or '').endswith('::' + dst_v) and len(body['a']) == 1 and binds and (chain_root(body['a'][0]) or {}).get('id') == binds[0]['id']:
                            ok = True
                    rep.inst('L6', '%s: %s stays as it is: %s' % (b['path'], dst_v, ok))
                    if not ok:
                        rep.viol('L6', b['path'], 'identity-' + dst_v, '%s on an already %s index must return it unchanged' % (meth, dst_v.lower()), loc=cr.loc(body))
    rep.floor('L6', 14, 'freeze/unfreeze arms')


# ------------------------------------------------------------------ L7

def check_L7(ctx, rep):
    cr = ctx.lib('ascent')
    found = 0
    for p, b in cr.bodies.items():
        io = b.get('impl_of') or ''
        if 'RelIndexCombined<' not in io or b['name'] not in ('index_get', 'c_index_get', 'iter_all', 'c_iter_all', 'len_estimate', 'is_empty'):
            continue
        found += 1
        rep.functions.add(p)
        self_id = b['params'][0].get('id')
        fields = set()
        for x, parents in walk(b['tree']):
            if x.get('k') == 'mcall' and x['m'] == b['name']:
                r = strip(x['r'])
                if r.get('k') == 'field' and (chain_root(r) or {}).get('id') == self_id:
                    fields.add(r['n'])
                    # both parts are consulted unconditionally: total and delta of a partial index share keys
                    chain_ = list(parents) + [x]
                    cond = None
                    for i_, q in enumerate(chain_[:-1]):
                        nx = chain_[i_ + 1]
                        if q.get('k') == 'if' and (nx is q['th'] or nx is q.get('el')):
                            cond = 'if'
                        if q.get('k') == 'match' and any(nx is a['b'] for a in q['arms']):
                            cond = 'match arm'
                        if q.get('k') == 'binary' and q['op'] in ('&&', '||') and nx is q['r'] and b['name'] not in ('is_empty',):
                            cond = 'short-circuit'
                        if q.get('k') == 'closure':
                            cond = 'closure'
                    if cond and b['name'] != 'is_empty':
                        rep.viol('L7', p, 'conditional-part:' + r['n'],
                                 'the combined view consults `%s` only conditionally (%s): entries of one part are hidden whenever the other '
                                 'part has an entry for the same key' % (r['n'], cond), loc=cr.loc(x))
        ok = fields == {'ind1', 'ind2'}
        rep.inst('L7', '%s delegates to %s' % (p, sorted(fields)))
        if not ok:
            rep.viol('L7', p, 'both-parts', 'combined view must delegate %s to both ind1 and ind2 (delegates to %s)' % (b['name'], sorted(fields)))
            continue
        ops = [x for x, _ in walk(b['tree']) if x.get('k') == 'binary']
        chains = [x for x, _ in walk(b['tree']) if x.get('k') == 'mcall' and x['m'] == 'chain']
        if b['name'] == 'is_empty':
            good = len(ops) == 1 and ops[0]['op'] == '&&'
            rep.inst('L7', '%s combines with %s' % (p, [o['op'] for o in ops]))
            if not good:
                rep.viol('L7', p, 'is_empty-op', 'combined is_empty must be the conjunction of both parts')
        elif b['name'] == 'len_estimate':
            good = len(ops) == 1 and ops[0]['op'] == '+'
            rep.inst('L7', '%s combines with %s' % (p, [o['op'] for o in ops]))
            if not good:
                rep.viol('L7', p, 'len-op', 'combined len_estimate must add both parts')
        else:
            good = len(chains) == 1
            # both results flow into the chain
            if good:
                ch = chains[0]
                srcs = set()
                for side in (ch['r'], ch['a'][0]):
                    for y, _ in walk(side):
                        if y.get('k') == 'mcall' and y['m'] == b['name']:
                            srcs.add(strip(y['r']).get('n'))
                        if y.get('k') == 'path' and y.get('res') == 'local':
                            srcs.add(y['n'])
                good = len(srcs) >= 2
            rep.inst('L7', '%s chains both results: %s' % (p, good))
            if not good:
                rep.viol('L7', p, 'chain', 'combined %s must chain the results of both parts' % b['name'])
            if b['name'] in ('index_get', 'c_index_get'):
                # None only when both parts are None
                for x, _ in walk(b['tree']):
                    if x.get('k') == 'match' and x.get('src') == 'normal' and strip(x['e']).get('k') == 'tup':
                        for a in x['arms']:
                            res = strip(a['b'])
                            is_none = res.get('k') == 'path' and (res.get('d') or '').endswith('::None')
                            if is_none:
                                pp_ = a['p']
                                both_none = pp_.get('k') == 'tup' and all(((q.get('path') or {}).get('d') or '').endswith('::None') for q in pp_['ps'])
                                rep.inst('L7', '%s: None only for (None, None): %s' % (p, both_none))
                                if not both_none:
                                    rep.viol('L7', p, 'none-arm', 'combined lookup returns None although one part has matches')
    if found < 6:
        raise Broken('RelIndexCombined methods: found %d, expected 10' % found)
    rep.floor('L7', 10, 'combined view obligations')


# ------------------------------------------------------------------ L8

def check_L8(ctx, rep):
    """process-wide state: every static of the library crates; a value read from a mutable static may only flow back into a
    store to the same static; the single read-only lazy cell is the shard amount used by every DashMap constructed."""
    n_statics = 0
    for crname in ('ascent', 'ascent_base', 'ascent_byods_rels'):
        cr = ctx.lib(crname)
        muts = {s['path'] for s in cr.all_statics if s['mutable']}
        for s in cr.all_statics:
            n_statics += 1
            rep.inst('L8.static', '%s::%s mutable=%s ty=%s' % (crname, s['path'], s['mutable'], cr.s(s['ty'])))
            ty = cr.s(s['ty'])
            if not s['mutable'] and any(t in ty for t in ('Mutex', 'RwLock', 'Atomic', 'RefCell', 'Cell<', 'DashMap')):
                rep.viol('L8', s['path'], 'interior-mutable-static', 'process-wide interior-mutable state `%s`: %s' % (s['path'], ty))
        for p, b in cr.bodies.items():
            if '::tests::' in p or p.startswith('tests::') or p.startswith('exps::') or p.startswith('test::'):
                continue
            for x, parents in walk(b['tree']):
                if x.get('k') == 'path' and x.get('res') == 'def' and x.get('dk') == 'Static' and x.get('d') in muts:
                    par = parents[-1] if parents else {}
                    ok = False
                    # accepted: `STATIC += expr` / `STATIC = expr` where the static is the assigned place
                    if par.get('k') in ('assignop', 'assign') and strip(par['l']) is x:
                        ok = True
                    rep.inst('L8.use', '%s uses static mut %s as %s' % (p, x['d'], 'store target' if ok else 'VALUE'))
                    rep.functions.add(p)
                    if not ok:
                        rep.viol('L8', p, 'reads ' + x['d'], 'a mutable static is read as a value (process-wide state flows into logic)', loc=cr.loc(x))
    # shard amount: every DashMap construction in ascent uses shards_count()
    cr = ctx.lib('ascent')
    n_ctor = 0
    for p, b in cr.bodies.items():
        for x, _ in walk(b['tree']):
            c = callee(x)
            nm = cname(c)
            if nm.startswith('dashmap::DashMap') and nm.split('::')[-1] in ('new', 'with_hasher', 'with_capacity', 'default', 'with_capacity_and_hasher',
                                                                            'with_shard_amount', 'with_hasher_and_shard_amount',
                                                                            'with_capacity_and_hasher_and_shard_amount'):
                n_ctor += 1
                uses = any(cname(callee(y)).endswith('shards_count') for y, _ in walk(x) if callee(y))
                rep.inst('L8.shards', '%s: %s with shards_count(): %s' % (p, nm.split('::')[-1], uses))
                if not uses:
                    rep.viol('L8', p, 'dashmap-ctor', 'DashMap constructed without the process-wide constant shard amount: merges zip shards pairwise', loc=cr.loc(x))
            if x.get('k') == 'call' and c and (c.get('i') or '').startswith('<dashmap::DashMap') and (c.get('i') or '').endswith('Default>::default'):
                n_ctor += 1
                rep.viol('L8', p, 'dashmap-default', 'DashMap::default() picks its own shard amount', loc=cr.loc(x))
    sc = cr.bodies.get('c_rel_index::shards_count')
    if sc is None:
        raise Broken('ascent::c_rel_index::shards_count not found')
    rep.functions.add(sc['path'])
    lazy = [s for s in cr.all_statics if s['path'].startswith('c_rel_index::shards_count::')]
    rep.inst('L8.shards', 'shards_count reads %s' % [s['path'] for s in lazy])
    if len(lazy) != 1 or 'Lazy' not in cr.s(lazy[0]['ty']) and 'OnceLock' not in cr.s(lazy[0]['ty']) and 'LazyLock' not in cr.s(lazy[0]['ty']):
        rep.viol('L8', sc['path'], 'uncached', 'shards_count() is not backed by a once-initialised cell: maps created at different times could get different shard amounts')
    else:
        # the function body must return the cell, not recompute
        calls = [cname(callee(y)) for y, _ in walk(sc['tree']) if callee(y)]
        if any('current_num_threads' in c for c in calls):
            rep.viol('L8', sc['path'], 'recomputed', 'shards_count() recomputes from the current rayon pool on each call')
    if n_ctor < 3:
        raise Broken('DashMap constructions found: %d (expected >= 3)' % n_ctor)
    # the shard amount is admissible for DashMap (a power of two greater than 1) under every pool size >= 1: interval evaluation of
    # the cell's initialiser with current_num_threads() / available_parallelism() in [1, inf)
    init = cr.bodies.get(lazy[0]['path']) if len(lazy) == 1 else None
    clo = None
    if init is not None:
        for y, _ in walk(init['tree']):
            if y.get('k') == 'closure':
                clo = y; break
    if clo is None:
        if any(v['rule'] == 'L8' for v in rep.violations):
            rep.floor('L8.static', 5, 'statics of the library crates')
            return          # the cell itself is already reported (not once-initialised / recomputed): nothing to bound
        raise Broken('L8: initialiser closure of the shard amount cell not found')

    def lower(e):
        """-> (lower bound, is a power of two for sure)"""
        e = strip(e)
        k = e.get('k')
        if k == 'block' and not e['ss'] and 'e' in e:
            return lower(e['e'])
        if k == 'lit' and str(e['v']).isdigit():
            v = int(e['v'])
            return v, v > 0 and v & (v - 1) == 0
        if k == 'cast':
            return lower(e['e'])
        c = callee(e)
        nm = cname(c) if c else ''
        if k == 'call' and (nm.endswith('current_num_threads') or nm.endswith('max_num_threads')):
            return 1, False
        if k == 'mcall':
            m = e['m']
            if m == 'next_power_of_two':
                lb, _ = lower(e['r'])
                v = 1
                while v < lb:
                    v *= 2
                return v, True
            if m == 'max' and e['a']:
                (a, pa), (b_, pb) = lower(e['r']), lower(e['a'][0])
                return max(a, b_), pa and pb
            if m == 'min' and e['a']:
                (a, pa), (b_, pb) = lower(e['r']), lower(e['a'][0])
                return min(a, b_), pa and pb
            if m in ('saturating_mul', 'wrapping_mul') and e['a']:
                (a, pa), (b_, pb) = lower(e['r']), lower(e['a'][0])
                return a * b_, pa and pb
            if m in ('map_or', 'unwrap_or') and e['a']:          # available_parallelism().map_or(1, usize::from)
                return lower(e['a'][0])[0] if m == 'unwrap_or' else min(lower(e['a'][0])[0], 1), False
            if m in ('get', 'into', 'clone'):
                return lower(e['r'])
        if k == 'binary':
            (a, pa), (b_, pb) = lower(e['l']), lower(e['r'])
            if e['op'] == '*':
                return a * b_, pa and pb
            if e['op'] == '+':
                return a + b_, False
            if e['op'] == '<<':
                return a << b_, pa
            if e['op'] in ('/', '>>', '-', '%'):
                return 0, False
        return 0, False
    lb, pow2 = lower(clo['b'])
    rep.inst('L8.shards', 'shard amount: lower bound %d over all pool sizes, power of two: %s' % (lb, pow2))
    if lb < 2 or not pow2:
        rep.viol('L8', lazy[0]['path'], 'shard-amount-inadmissible',
                 'the shard amount is not provably a power of two greater than 1 for every pool size (lower bound %d with one worker thread, '
                 'power of two: %s): DashMap::with_hasher_and_shard_amount asserts `shard_amount > 1` and `is_power_of_two` - every parallel '
                 'program panics in Default::default() under a one-thread pool' % (lb, pow2), loc=cr.loc(clo))
    rep.floor('L8.static', 5, 'statics of the library crates')


# ------------------------------------------------------------------ L13

SAMPLING = ('Iterator::take', 'Iterator::take_while', 'Iterator::step_by', 'Iterator::skip', 'Iterator::nth', 'Iterator::next',
            'Iterator::last', 'Iterator::find', 'Iterator::any', '::first', '::last', 'len_estimate', 'Iterator::position')


def check_L13(ctx, rep):
    """`is_empty` of an index view is consulted to skip whole rules (any_rel_empty); it may answer true only when the view is
    definitely empty. Definite contradiction = the answer is computed from an estimate or a sample of the container."""
    n = 0
    for crname in ('ascent', 'ascent_byods_rels'):
        cr = ctx.lib(crname)
        for p, b in cr.bodies.items():
            if b['name'] != 'is_empty' or not (b.get('trait_of') or '').endswith('RelIndexRead'):
                continue
            if not b.get('impl_of'):
                # the trait's provided default must be the conservative `false`
                v = _tail_bool(b['tree'])
                rep.inst('L13', '%s (provided default) returns %s' % (p, v))
                if v is not False:
                    rep.viol('L13', p, 'default', 'the provided RelIndexRead::is_empty must conservatively answer false')
                continue
            n += 1
            rep.functions.add(p)
            seen = set()
            bad = _reach_sampling(cr, b, seen)
            rep.inst('L13', '%s: %s' % (p, 'exact' if not bad else 'SAMPLED via ' + ','.join(sorted(bad))))
            if bad:
                rep.viol('L13', p, 'sampled-is_empty',
                         'is_empty() is computed from an estimate / a sample (%s): a non-empty relation can be reported empty and '
                         'rules reading it are skipped' % ', '.join(sorted(bad)))
            # a literal `true` is never acceptable
            if _tail_bool(b['tree']) is True:
                rep.viol('L13', p, 'const-true', 'is_empty() is constantly true')
    rep.floor('L13', 8, 'is_empty implementations')


def _reach_sampling(cr, b, seen, depth=0):
    bad = set()
    if b['path'] in seen or depth > 3:
        return bad
    seen.add(b['path'])
    for x, _ in walk(b['tree']):
        c = callee(x)
        if not c:
            continue
        nm = c.get('d') or ''
        inm = c.get('i') or ''
        for sname in SAMPLING:
            if nm.endswith(sname) or inm.endswith(sname):
                bad.add(sname.split('::')[-1])
        d = c.get('d')
        if d in cr.bodies and d != b['path'] and cr.bodies[d]['name'] not in ('is_empty',):
            bad |= _reach_sampling(cr, cr.bodies[d], seen, depth + 1)
    return bad


# ------------------------------------------------------------------ L27

DROPPING_ADAPTORS = {'chunks_exact', 'par_chunks_exact', 'rchunks_exact', 'par_rchunks_exact', 'chunks_exact_mut', 'par_chunks_exact_mut',
                     'array_chunks', 'as_chunks', 'step_by', 'take', 'skip', 'take_while', 'skip_while', 'nth', 'split_first', 'split_last',
                     'first', 'last', 'split_at', 'get'}


def check_L27(ctx, rep):
    """whole-index iteration covers every shard: a function of the concurrent index types that walks the shard collection
    (`shards()`, `.shards`, the slot vector `.vec`) to read ALL entries - iter_all / drive_unindexed / is_empty / merge / freeze -
    passes it through no adaptor that can leave shards out (`*_chunks_exact` drops the remainder, take / skip / step_by / first ..).
    Sampling is legitimate only in the size estimate (`len_estimate`), which is exempt by name."""
    cr = ctx.lib('ascent')
    n = 0
    for path, b in sorted(cr.bodies.items()):
        if not any(m in path for m in ('c_rel_index', 'c_rel_full_index', 'c_lat_index', 'c_rel_no_index')):
            continue
        if 'len_estimate' in b['name'] or b['name'].startswith('test') or b['name'] in ('hash_usize', 'get_shard', 'index_insert', 'insert_if_not_present', 'insert_if_not_present2'):
            continue
        for x, parents in walk(b['tree']):
            # a chain rooted in the shard collection
            is_src = (x.get('k') == 'mcall' and x['m'] in ('shards', 'shards_mut')) or (x.get('k') == 'field' and x['n'] in ('shards', 'vec'))
            if not is_src:
                continue
            # walk outwards through the method chain
            chain = []
            cur = x
            for p_ in reversed(parents):
                if p_.get('k') == 'mcall' and strip(p_['r']) is cur or (p_.get('k') == 'mcall' and any(y is cur for y, _ in walk(p_['r']))):
                    chain.append(p_['m']); cur = p_
                elif p_.get('k') in ('addr', 'unary', 'paren', 'cast'):
                    cur = p_
                else:
                    break
            if not any(m in ('iter', 'par_iter', 'into_par_iter', 'iter_mut', 'par_iter_mut', 'into_iter') or 'chunks' in m for m in chain):
                continue
            n += 1
            bad = [m for m in chain if m in DROPPING_ADAPTORS]
            rep.inst('L27', '%s: walks the shard collection through %s: complete=%s' % (path, '.'.join(chain[:6]), not bad))
            rep.functions.add(path)
            if bad:
                rep.viol('L27', path, 'shards-dropped:' + ','.join(bad),
                         'the iteration over all shards passes through `%s`, which leaves shards out (remainder / prefix / suffix): keys hashed '
                         'into those shards are never visited - the result depends on the pool size' % bad[0], loc=cr.loc(x))
    if n < 6:
        raise Broken('L27: only %d walks over shard collections found in the concurrent index types (anchor lost?)' % n)
    return n


# ------------------------------------------------------------------ L31

_NONBLOCKING = re.compile(r'::(try_get|try_get_mut|try_entry|try_lock|try_read|try_write|try_lock_arc|try_read_recursive|try_upgradable_read)$')
_NONBLOCKING_SELFTEST = ('dashmap::DashMap::<K, V, S>::try_get', 'lock_api::RwLock::<R, T>::try_write', 'std::sync::Mutex::<T>::try_lock')


def check_L31(ctx, rep):
    """a momentarily held lock is not an absent key: the concurrent index types (and the code around them) acquire shard / map locks
    with the blocking calls. A non-blocking attempt (`try_get`, `try_entry`, `try_lock`, `try_read`, `try_write`) reports a lock held
    by another worker as a third outcome; outside a retry loop that outcome is folded into "absent" / "not inserted", and the caller
    files a second row for a key that is being inserted right now. Expected count on the tree: zero (the matcher is self-tested on
    three known names on every run)."""
    for nm in _NONBLOCKING_SELFTEST:
        if not _NONBLOCKING.search(nm):
            raise Broken('L31: matcher self-test failed on %s' % nm)
    if _NONBLOCKING.search('dashmap::DashMap::<K, V, S>::get') or _NONBLOCKING.search('std::rc::Rc::<T>::try_unwrap'):
        raise Broken('L31: matcher self-test: false positive')
    cr = ctx.lib('ascent')
    n_fn = n_acq = 0
    for path, b in sorted(cr.bodies.items()):
        if b['name'].startswith('test'):
            continue
        n_fn += 1
        for x, parents in walk(b['tree']):
            if x.get('k') not in ('mcall', 'call'):
                continue
            c = callee(x)
            if not c:
                continue
            nm = cname(c)
            if nm.endswith(('::get', '::get_mut', '::entry', '::lock', '::read', '::write')) and ('DashMap' in nm or 'RwLock' in nm or 'Mutex' in nm):
                n_acq += 1
            if not _NONBLOCKING.search(nm):
                continue
            in_loop = any(p.get('k') == 'loop' for p in parents)
            rep.inst('L31', '%s: non-blocking acquisition %s (%s)' % (path, nm.split('::')[-1], 'inside a retry loop' if in_loop else 'single attempt'))
            rep.functions.add(path)
            if not in_loop:
                rep.viol('L31', path, 'nonblocking:' + nm.split('::')[-1],
                         '`%s` gives up when another worker holds the lock, and this is a single attempt: "locked" is treated like "absent" - a key '
                         'that is being inserted concurrently is reported missing (a second row is filed for it) or an insertion is lost'
                         % nm.split('::')[-1], loc=cr.loc(x))
    rep.inst('L31', 'ascent: %d functions scanned, %d blocking lock / map acquisitions, non-blocking attempts as listed' % (n_fn, n_acq))
    if n_acq < 5:
        raise Broken('L31: only %d blocking acquisitions recognised in the ascent crate (anchor lost?)' % n_acq)


# ------------------------------------------------------------------ L1b

def check_L1b(ctx, rep):
    """concurrent writers (`&self`) of the DashMap backed index types touch the map once per call: an `entry(..)` operation holds
    the shard lock across "is the key there?" and "add the value". A lookup (`get` / `get_mut` / `contains_key`) followed by an
    `insert` in the same function is check-then-act: two workers that bring the same fresh key at the same moment both see it
    absent, and the second `insert` replaces the first one's rows."""
    cr = ctx.lib('ascent')
    n = 0
    for path, b in sorted(cr.bodies.items()):
        if not any(m in path for m in ('c_rel_index', 'c_rel_full_index', 'c_lat_index')) or b['name'].startswith('test') or not b['params']:
            continue
        p0 = b['params'][0]
        pty = cr.s(p0.get('t')) or ''
        if not pty.startswith('&') or pty.startswith('&mut'):
            continue
        looks, writes, entries = [], [], []
        for x, _ in walk(b['tree']):
            if x.get('k') != 'mcall':
                continue
            rty = (cr.ty(x['r']) or '')
            if 'DashMap<' not in rty and 'dashmap::' not in (cname(x.get('c')) or ''):
                continue
            nm = cname(x.get('c')) or ''
            if 'DashMap' not in nm:
                continue
            if x['m'] in ('get', 'get_mut', 'contains_key', 'try_get', 'try_get_mut', 'view'):
                looks.append(x)
            elif x['m'] in ('insert', 'remove', 'alter', 'insert_and_get'):
                writes.append(x)
            elif x['m'] in ('entry', 'try_entry'):
                entries.append(x)
        if not (looks or writes or entries):
            continue
        n += 1
        bad = bool(looks and writes)
        rep.inst('L1b', '%s: %d entry op(s), %d lookup(s), %d blind write(s) on the shared map: %s' % (
            path, len(entries), len(looks), len(writes), 'CHECK-THEN-ACT' if bad else 'one critical section per touch'))
        rep.functions.add(path)
        if bad:
            rep.viol('L1', path, 'check-then-act:' + looks[0]['m'] + '+' + writes[0]['m'],
                     'a shared-reference writer looks the key up (`%s`) and then writes (`%s`) in two separate map operations: two workers '
                     'with the same fresh key both find it absent and one overwrites the other\'s rows' % (looks[0]['m'], writes[0]['m']),
                     loc=cr.loc(writes[0]))
    if n < 3:
        raise Broken('L1b: only %d shared-reference functions touching a DashMap found in the concurrent index types' % n)


# ------------------------------------------------------------------ L35

def check_L35(ctx, rep):
    """the slots of the concurrent index types are mutated under their lock: `data_ptr()` of a lock is used to *read* frozen data
    (`&*v.data_ptr()`, `.as_ref()`), never to obtain a `&mut` - two workers that share a slot (the worker index is reduced modulo the
    slot count, and threads outside the pool all use slot 0) would push into one Vec at the same time."""
    cr = ctx.lib('ascent')
    n = 0
    for path, b in sorted(cr.bodies.items()):
        if not any(m in path for m in ('c_rel_index', 'c_rel_full_index', 'c_lat_index', 'c_rel_no_index')) or b['name'].startswith('test'):
            continue
        for x, parents in walk(b['tree']):
            if x.get('k') != 'mcall' or x['m'] != 'data_ptr':
                continue
            n += 1
            # how is the raw pointer used: `&mut *p` / `p.as_mut()` = mutable access without the lock
            mut_use = None
            for p_ in reversed(parents[-4:]):
                if p_.get('k') == 'addr' and p_.get('mut'):
                    mut_use = '&mut *..data_ptr()'
                if p_.get('k') == 'mcall' and p_['m'] in ('as_mut', 'as_mut_unchecked', 'write', 'replace'):
                    mut_use = '.data_ptr().%s()' % p_['m']
            rep.inst('L35', '%s: data_ptr() used for %s' % (path, mut_use or 'reading'))
            rep.functions.add(path)
            if mut_use:
                rep.viol('L35', path, 'unlocked-mutation',
                         'lock-protected data is mutated through the raw pointer of its lock (%s) instead of under the lock: workers that '
                         'share the slot race on it and insertions are lost' % mut_use, loc=cr.loc(x))
    if n < 2:
        raise Broken('L35: fewer than 2 data_ptr() uses found in the concurrent index types (anchor lost?)')
