"""L9 (bounded indexing) and L11 (aggregator shape) - property C17, and L9 on CRelNoIndex for C20."""
from facts import walk, callee, children
from tree import strip, root_local, place_path, cname, lit_bool, pat_bindings
from guards import conds_at
from core import Broken

PANICKING_INDEX_METHODS = {
    'std::vec::Vec::<T, A>::swap_remove': 'swap_remove',
    'std::vec::Vec::<T, A>::remove': 'remove',
    'std::vec::Vec::<T, A>::insert': 'insert',
    'std::vec::Vec::<T, A>::split_off': 'split_off',
    'std::collections::VecDeque::<T, A>::swap_remove_back': 'swap_remove_back',
}
# partial indexing: an out-of-range index silently yields None (the aggregator then yields nothing on non-empty input)
PARTIAL_INDEX_METHODS = {
    'core::slice::<impl [T]>::get': 'get', 'core::slice::<impl [T]>::get_mut': 'get_mut',
    'std::collections::VecDeque::<T, A>::get': 'get', 'core::slice::<impl [T]>::select_nth_unstable': 'select_nth_unstable',
}


def _defs_of_locals(tree):
    """local id -> init expression of its (single) `let` with a simple binding pattern"""
    defs = {}
    for n, _ in walk(tree):
        if n.get('k') == 'let' and 'i' in n and n['p'].get('k') == 'bind':
            defs.setdefault(n['p']['id'], []).append(n['i'])
    return {k: v[0] for k, v in defs.items() if len(v) == 1}


def _same_place(a, b):
    pa, pb = place_path(a), place_path(b)
    return pa is not None and pb is not None and pa[0] == pb[0] and pa[2] == pb[2]


def _is_len_of(n, base):
    n = strip(n)
    if n.get('k') == 'mcall' and n['m'] == 'len' and _same_place(n['r'], base):
        return True
    return False


def _is_len_minus_one(n, base):
    n = strip(n)
    if n.get('k') == 'binary' and n['op'] == '-' and _is_len_of(n['l'], base) and strip(n['r']).get('v') == '1':
        return True
    if n.get('k') == 'mcall' and n['m'] == 'saturating_sub' and _is_len_of(n['r'], base) and strip(n['a'][0]).get('v') == '1':
        return True
    return False


def _nonempty_guard(conds, base):
    for c, pol in conds:
        c = strip(c)
        if c.get('k') == 'mcall' and c['m'] == 'is_empty' and _same_place(c['r'], base) and pol is False:
            return True
        if c.get('k') == 'binary' and _is_len_of(c['l'], base):
            r = strip(c['r']).get('v')
            if pol and ((c['op'] == '>' and r == '0') or (c['op'] == '!=' and r == '0') or (c['op'] == '>=' and r == '1')):
                return True
            if (not pol) and c['op'] == '==' and r == '0':
                return True
    return False


def index_bounded(idx, base, conds, defs, depth=0):
    """Is the index expression provably < len(base) by one of the accepted idioms? returns (bool, idiom)"""
    idx = strip(idx)
    if depth > 4:
        return False, None
    # (a) reduced modulo the indexed vector's own len()
    if idx.get('k') == 'binary' and idx['op'] == '%':
        r = strip(idx['r'])
        if _is_len_of(r, base):
            return True, 'modulo own len()'
        # .. or modulo an immutable local that was initialised with that len() (the slot vectors are never resized)
        if r.get('k') == 'path' and r.get('res') == 'local' and r['id'] in defs and _is_len_of(defs[r['id']], base):
            return True, 'modulo own len() (through a local)'
    # (b) clamped by min(_, len-1) under a non-empty guard
    if idx.get('k') == 'mcall' and idx['m'] == 'min' and (_is_len_minus_one(idx['a'][0], base) or _is_len_minus_one(idx['r'], base)):
        if _nonempty_guard(conds, base):
            return True, 'min(_, len-1) under non-empty guard'
        return False, 'clamp without non-empty guard'
    if idx.get('k') == 'call' and cname(callee(idx)).endswith('cmp::min') and any(_is_len_minus_one(a, base) for a in idx['a']):
        if _nonempty_guard(conds, base):
            return True, 'min(_, len-1) under non-empty guard'
        return False, 'clamp without non-empty guard'
    # (c) dominated by an explicit idx < base.len() test
    for c, pol in conds:
        c = strip(c)
        if c.get('k') == 'binary' and pol and c['op'] == '<' and _is_len_of(c['r'], base):
            l = strip(c['l'])
            if l.get('k') == 'path' and idx.get('k') == 'path' and l.get('id') == idx.get('id') and l.get('res') == 'local':
                return True, 'dominated by idx < len()'
    # (d) literal index into a fixed-size array
    if idx.get('k') == 'lit':
        return False, 'literal index'
    # follow a local to its single definition
    if idx.get('k') == 'path' and idx.get('res') == 'local' and idx['id'] in defs:
        return index_bounded(defs[idx['id']], base, conds, defs, depth + 1)
    return False, None


def check_L9(ctx, rep, modules, partial=False):
    cr = ctx.lib('ascent')
    methods = dict(PANICKING_INDEX_METHODS)
    if partial:
        methods.update(PARTIAL_INDEX_METHODS)
    found_mods = set()
    for path, b in sorted(cr.bodies.items()):
        mod = None
        for m in modules:
            if path.startswith(m + '::') or ('<' + m + '::') in path or (' ' + m + '::') in path:
                mod = m
        if mod is None:
            continue
        found_mods.add(mod)
        rep.functions.add(path)
        defs = _defs_of_locals(b['tree'])
        for n, parents in walk(b['tree']):
            k = n.get('k')
            base = idx = None
            what = None
            if k == 'index':
                bt = cr.s(n.get('bt')) or cr.ty(n['e']) or ''
                bt0 = bt.replace('&mut ', '').replace('&', '')
                if bt0.startswith(('std::vec::Vec<', '[')) or bt0.startswith('std::collections::VecDeque<'):
                    base, idx, what = n['e'], n['i'], 'index []'
                    # ranges / full slices are not element indexing
                    it = cr.ty(n['i']) or ''
                    if 'ops::Range' in it:
                        continue
            elif k == 'mcall':
                c = n.get('c') or {}
                nm = c.get('i') or c.get('d') or ''
                if nm in methods and n['a']:
                    base, idx, what = n['r'], n['a'][0], methods[nm]
            if base is None:
                continue
            rep.call_sites += 1
            conds = conds_at(parents, n)
            ok, idiom = index_bounded(idx, base, conds, defs)
            pp_ = place_path(base)
            bname = pp_[1] + ''.join(pp_[2]) if pp_ else '?'
            rep.inst('L9', '%s: %s on %s (%s)' % (path, what, bname, idiom or 'unbounded'))
            if not ok:
                rep.viol('L9', path, '%s on %s' % (what, bname),
                         'index of a panicking indexing operation is not bounded by the length of `%s` '
                         '(accepted: `%% len()`, `min(_, len-1)` under a non-empty guard, dominating `i < len()`)%s'
                         % (bname, (' [' + idiom + ']') if idiom else ''), loc=cr.loc(n))
    for m in modules:
        if m not in found_mods:
            raise Broken('module %s not found in ascent facts' % m)


# ------------------------------------------------------------------ L11

def _calls(tree, into_closures=True):
    for n, ps in walk(tree):
        c = callee(n)
        if c:
            yield n, c, ps


def check_L11(ctx, rep):
    cr = ctx.lib('ascent')
    fns = {}
    for name in ('min', 'max', 'sum', 'count', 'mean', 'percentile', 'not'):
        b = cr.bodies.get('aggregators::' + name)
        if b is None:
            raise Broken('aggregator %s not found' % name)
        fns[name] = b
        rep.functions.add(b['path'])

    def names(b):
        return [cname(c) for _, c, _ in _calls(b['tree'])]

    def result_via(b):
        """how the returned iterator is built: 'option' (Option::into_iter => nothing on None) / 'once' / None"""
        t = strip(b['tree'])
        tail = t
        while True:
            tail = strip(tail)
            if tail.get('k') == 'block' and 'e' in tail:
                tail = tail['e']; continue
            if tail.get('k') == 'closure':
                tail = tail['b']; continue
            break
        c = callee(tail)
        nm = (c or {}).get('i') or (c or {}).get('d') or ''
        if 'Option<T> as std::iter::IntoIterator>::into_iter' in nm or nm.endswith('Option::<T>::into_iter'):
            return 'option', tail
        if nm.endswith('iter::once'):
            return 'once', tail
        return None, tail

    # every aggregator looks at every input row: no adaptor that leaves rows out on the way from the input to the fold
    # (`count` may use an exact size hint instead of counting, `not` only asks whether there is a first row)
    DROPPING = ('Iterator::skip', 'Iterator::take', 'Iterator::step_by', 'Iterator::skip_while', 'Iterator::take_while', 'Iterator::nth',
                'Iterator::filter', 'Iterator::filter_map', 'Iterator::last', 'Iterator::nth_back', 'Iterator::find', 'Iterator::position')
    for name in ('min', 'max', 'sum', 'mean', 'percentile', 'count'):
        bad = [x for x in names(fns[name]) if x.endswith(DROPPING)]
        rep.inst('L11.all', '%s: adaptors that leave rows out: %s' % (name, [x.split('::')[-1] for x in bad] or 'none'))
        for x in bad:
            rep.viol('L11', 'aggregators::' + name, 'rows-left-out:' + x.split('::')[-1],
                     '`%s` passes its input through `%s`: some input rows never reach the fold' % (name, x.split('::')[-1]))
    # polarity of min / max
    for name, good, bad in (('min', 'Iterator::min', 'Iterator::max'), ('max', 'Iterator::max', 'Iterator::min')):
        ns = names(fns[name])
        g = [x for x in ns if x.startswith('std::iter::' + good) or ('::' + good) in x]
        bd = [x for x in ns if ('::' + bad) in x]
        rep.inst('L11.polarity', '%s: %s' % (name, ','.join(g + bd) or 'none'))
        if bd and not g:
            rep.viol('L11', 'aggregators::' + name, 'fold-polarity', '`%s` folds with %s' % (name, bd[0]))
        elif not g and not bd:
            # a hand-written fold: the comparison that makes the candidate replace the best so far decides the polarity
            cmp_ops = [n_.get('op') for n_, _ in walk(fns[name]['tree']) if n_.get('k') == 'binary' and n_.get('op') in ('<', '>', '<=', '>=')]
            folds = any(x.endswith(('Iterator::fold', 'Iterator::reduce')) for x in ns)
            if folds and cmp_ops:
                rep.inst('L11.polarity', '%s: hand-written fold with %s (polarity not decided by this rule)' % (name, cmp_ops))
            elif not rep.violations:
                raise Broken('aggregators::%s: fold not recognised (neither Iterator::min* nor max*)' % name)
    # emptiness behaviour
    for name, want in (('min', 'option'), ('max', 'option'), ('mean', 'option'), ('percentile', 'option'), ('not', 'option'),
                       ('sum', 'once'), ('count', 'once')):
        via, tail = result_via(fns[name])
        rep.inst('L11.empty', '%s: result built via %s' % (name, via))
        if via is None:
            raise Broken('aggregators::%s: result construction not recognised' % name)
        if via != want:
            rep.viol('L11', 'aggregators::' + name, 'empty-input',
                     '`%s` builds its result with %s, but must yield %s on empty input' % (
                         name, 'iter::once' if via == 'once' else 'an Option',
                         'nothing' if want == 'option' else 'exactly one value'), loc=cr.loc(tail))
    # sum folds with Iterator::sum
    sum_names = names(fns['sum'])
    folds_add = any(x.endswith(('Iterator::reduce', 'Iterator::fold')) for x in sum_names) and \
        any(n_.get('k') in ('binary', 'assignop') and n_.get('op') in ('+', '+=') for n_, _ in walk(fns['sum']['tree']))
    if any('Iterator::sum' in x for x in sum_names):
        rep.inst('L11.polarity', 'sum: Iterator::sum')
    elif folds_add:
        rep.inst('L11.polarity', 'sum: fold / reduce with +')
    elif not rep.violations:
        raise Broken('aggregators::sum: neither Iterator::sum nor a fold / reduce with + found')

    # count: a size_hint shortcut is only taken when lower == upper
    b = fns['count']
    hint_calls = [n for n, _ in walk(b['tree']) if n.get('k') in ('mcall', 'call') and callee(n) and cname(callee(n)).endswith('Iterator::size_hint')]
    if hint_calls:
        lo_ids, hi_ids = set(), set()

        def bind_hint_pat(pat):
            """positions of a pattern over the (lower, Option<upper>) pair"""
            if pat.get('k') == 'tup' and len(pat['ps']) == 2:
                for bb in pat_bindings(pat['ps'][0]):
                    lo_ids.add(bb['id'])
                for bb in pat_bindings(pat['ps'][1]):
                    hi_ids.add(bb['id'])
                return True
            return False
        whole = set()       # locals holding the whole pair
        recognised = 0
        for n, _ in walk(b['tree']):
            if n.get('k') == 'let' and 'i' in n and strip(n['i']) in hint_calls:
                if bind_hint_pat(n['p']):
                    recognised += 1
                elif n['p'].get('k') == 'bind':
                    whole.add(n['p']['id']); recognised += 1
            if n.get('k') == 'match' and (strip(n['e']) in hint_calls or (root_local(strip(n['e'])) or {}).get('id') in whole):
                for a in n['arms']:
                    bind_hint_pat(a['p'])
                recognised += 1
        if recognised < len(hint_calls):
            rep.viol('L11', 'aggregators::count', 'size-hint-unrecognised-use', 'size_hint() is consulted in a way the rule does not recognise '
                     '(fail closed): only `lower == upper` justifies using a hint as the count', loc=cr.loc(hint_calls[0]))
        defs = _defs_of_locals(b['tree'])
        derived = {'lo': set(lo_ids), 'hi': set(hi_ids)}
        grew = True
        while grew:
            grew = False
            for lid, init in defs.items():
                i0 = strip(init)
                r = root_local(i0['r']) if i0.get('k') == 'mcall' else (root_local(i0) if i0.get('k') == 'path' else None)
                for side in ('lo', 'hi'):
                    if r is not None and r['id'] in derived[side] and lid not in derived[side] and \
                            (i0.get('k') == 'path' or i0['m'] in ('unwrap_or', 'unwrap_or_default', 'unwrap_or_else', 'unwrap', 'clone')):
                        derived[side].add(lid); grew = True
        uses = 0
        for n, parents in walk(b['tree']):
            if n.get('k') == 'path' and n.get('res') == 'local' and (n['id'] in derived['lo'] or n['id'] in derived['hi'] or n['id'] in whole):
                par = parents[-1] if parents else None
                if par is not None and par.get('k') == 'binary' and par['op'] in ('==', '!='):
                    continue
                if par is not None and par.get('k') == 'mcall' and strip(par['r']) is n and par['m'] in ('unwrap_or', 'unwrap_or_default', 'unwrap_or_else', 'unwrap', 'clone') \
                        and any(x.get('k') == 'let' for x in parents[-3:]):
                    continue            # the defining step of a derived local, not a use as the result
                if par is not None and par.get('k') == 'match' and strip(par['e']) is n:
                    continue
                uses += 1
                ok = False
                for c, pol in conds_at(parents, n):
                    if c.get('k') == 'binary' and c['op'] == '==' and pol:
                        l, r = strip(c['l']), strip(c['r'])
                        li, ri = l.get('id'), r.get('id')
                        if (li in derived['lo'] and ri in derived['hi']) or (li in derived['hi'] and ri in derived['lo']):
                            ok = True
                rep.inst('L11.count', 'count: a size_hint bound is used as a value %s' % ('under lower == upper' if ok else 'UNGUARDED'))
                if not ok:
                    rep.viol('L11', 'aggregators::count', 'size-hint-shortcut',
                             'a bound of size_hint() is used as the count without the test lower == upper: iterators with an inexact hint '
                             '(filter, take_while, chars, ..) are over- or under-counted', loc=cr.loc(n))
        if uses == 0:
            rep.inst('L11.count', 'count: size_hint not used as result')
        if not any('Iterator::count' in x for x in names(b)):
            rep.viol('L11', 'aggregators::count', 'no-exact-count', 'no path of `count` counts the input with Iterator::count')
    else:
        if not any('Iterator::count' in x for x in names(b)):
            raise Broken('aggregators::count: neither size_hint shortcut nor Iterator::count found')
        rep.inst('L11.count', 'count: plain Iterator::count')

    # mean: the division is guarded against count == 0
    b = fns['mean']
    for n, parents in walk(b['tree']):
        if n.get('k') == 'binary' and n['op'] == '/':
            div = root_local(n['r'])
            ok = False
            for c, pol in conds_at(parents, n):
                if c.get('k') == 'binary' and c['op'] in ('==', '!=', '>'):
                    l = root_local(c['l'])
                    z = strip(c['r']).get('v')
                    if l is not None and div is not None and l['id'] == div['id'] and z == '0':
                        if (c['op'] == '==' and pol is False) or (c['op'] in ('!=', '>') and pol is True):
                            ok = True
            rep.inst('L11.mean', 'mean: division %s' % ('guarded by count != 0' if ok else 'UNGUARDED'))
            if not ok:
                rep.viol('L11', 'aggregators::mean', 'empty-division', 'sum / count is not guarded by count != 0', loc=cr.loc(n))

    # mean accumulates in f64: every addition / summation in `mean` has the type f64 (or usize, the counter) - adding in the
    # column's own type overflows for narrow integer columns or large values although the mean itself is representable
    b = fns['mean']
    n_acc = 0
    for n, parents in walk(b['tree']):
        ty = None
        what = None
        if n.get('k') in ('binary', 'assignop') and n.get('op') in ('+', '+=', '*'):
            ty = cr.ty(n) if n.get('k') == 'binary' else cr.ty(n.get('l'))
            what = 'addition'
        c = callee(n) if n.get('k') in ('mcall', 'call') else None
        if c and (cname(c).endswith('Iterator::sum') or cname(c).endswith('iter::Sum::sum') or cname(c).endswith('Iterator::product')):
            ty = cr.ty(n)
            what = 'Iterator::sum'
        if what is None:
            continue
        n_acc += 1
        ok = ty in ('f64', 'usize')
        rep.inst('L11.mean', 'mean: %s in type %s' % (what, ty))
        if not ok:
            rep.viol('L11', 'aggregators::mean', 'accumulates-in-column-type:%s' % ty,
                     '`mean` adds the inputs in the type `%s` instead of f64: the sum overflows (panic in debug builds, wrap-around in release) '
                     'for inputs whose mean is representable' % ty, loc=cr.loc(n))
    if n_acc == 0:
        raise Broken('aggregators::mean: no accumulation found (fold with + / sum)')

    # percentile: a rank over the *multiset* of inputs. The values are gathered in a duplicate-preserving sequence (no set, no
    # dedup), that sequence is ordered, and one element is selected by rank.
    b = fns['percentile']
    SET_TYPES = ('collections::BTreeSet<', 'collections::HashSet<', 'hashbrown::HashSet<', 'collections::btree_set::', 'collections::hash_set::')
    SORTS = ('::sort', '::sort_unstable', '::sort_by', '::sort_unstable_by', '::sort_by_key', '::sort_unstable_by_key', '::sort_by_cached_key',
             '::select_nth_unstable', '::select_nth_unstable_by', '::select_nth_unstable_by_key', 'BinaryHeap::<T, A>::into_sorted_vec',
             'Itertools::sorted', 'Itertools::sorted_unstable')
    SELECTS = ('swap_remove', 'remove', 'get', 'select_nth_unstable', 'Iterator::nth', 'Iterator::skip', 'get_mut', 'into_sorted_vec')
    n_sort = n_sel = 0
    for n, parents in walk(b['tree']):
        k = n.get('k')
        ty = (cr.ty(n) or '') if k in ('mcall', 'call', 'let', 'path') else ''
        ty0 = ty.replace('&mut ', '').replace('&', '')
        if any(t in ty0 for t in SET_TYPES) and k in ('mcall', 'call'):
            rep.inst('L11.percentile', 'percentile: values pass through %s' % ty0[:60])
            rep.viol('L11', 'aggregators::percentile', 'multiset-collapsed',
                     '`percentile` gathers the values in a set (%s): equal values collapse, the rank is taken over the distinct values '
                     'instead of over all inputs' % ty0[:80], loc=cr.loc(n))
            break
        c = callee(n) if k in ('mcall', 'call') else None
        if not c:
            if k == 'index':
                n_sel += 1
                rep.inst('L11.percentile', 'percentile: selects by index []')
            continue
        nm = cname(c)
        if nm.endswith(('::dedup', '::dedup_by', '::dedup_by_key', 'Itertools::unique', 'Itertools::dedup', 'Itertools::unique_by')):
            rep.viol('L11', 'aggregators::percentile', 'multiset-collapsed',
                     '`percentile` removes duplicate values (%s): the rank is taken over the distinct values' % nm, loc=cr.loc(n))
        if nm.endswith(SORTS):
            n_sort += 1
            rep.inst('L11.percentile', 'percentile: ordered by %s' % nm.split('::')[-1])
        if nm.endswith(SELECTS) and (n.get('a') or nm.endswith('into_sorted_vec')):
            n_sel += 1
            rep.inst('L11.percentile', 'percentile: selects by %s' % nm.split('::')[-1])
    if n_sort == 0 and not any(v['construct'] == 'multiset-collapsed' for v in rep.violations):
        raise Broken('aggregators::percentile: no ordering step recognised (sort*/select_nth_unstable*/into_sorted_vec/sorted)')
    if n_sel == 0 and not any(v['construct'] == 'multiset-collapsed' for v in rep.violations):
        raise Broken('aggregators::percentile: no rank selection recognised')

    # not: yields a unit exactly when next() is None
    b = fns['not']
    verdict = _eval_not(b)
    rep.inst('L11.not', 'not: %s' % verdict)
    if verdict == 'unrecognised':
        raise Broken('aggregators::not: shape not recognised')
    if verdict != 'some-iff-empty':
        rep.viol('L11', 'aggregators::not', 'negation-polarity', '`not` yields a value %s' % verdict)

    # no Iterator impl of the workspace overrides size_hint (count trusts exact hints)
    n_iter_impls = 0
    for crn in ('ascent', 'ascent_byods_rels', 'ascent_base'):
        c2 = ctx.lib(crn)
        for imp in c2.impls:
            if (imp.get('trait_def') or '').endswith('iter::Iterator'):
                n_iter_impls += 1
                for it in imp['items']:
                    if it['n'] == 'size_hint':
                        body = c2.bodies.get(it['path'])
                        deleg = False
                        if body:
                            for n, c, _ in _calls(body['tree']):
                                if cname(c).endswith('Iterator::size_hint'):
                                    deleg = True
                        rep.inst('L11.size_hint', '%s overrides size_hint (%s)' % (imp['path'], 'delegating' if deleg else 'own'))
                        if not deleg:
                            rep.viol('L11', it['path'], 'size_hint-override',
                                     'a workspace iterator overrides size_hint() without delegating; `count` trusts exact hints')
    rep.inst('L11.size_hint', 'Iterator impls scanned: %d' % n_iter_impls)


def _eval_not(b):
    """abstractly evaluate `not` for the two cases input-empty / input-non-empty; returns a verdict string"""
    def ev(n, env, nonempty):
        n = strip(n)
        k = n.get('k')
        if k == 'block':
            for s in n['ss']:
                if s['k'] == 'let' and 'i' in s and s['p'].get('k') == 'bind':
                    env[s['p']['id']] = ev(s['i'], env, nonempty)
            return ev(n['e'], env, nonempty) if 'e' in n else None
        if k == 'path':
            if n.get('res') == 'local':
                return env.get(n['id'])
            d = n.get('d', '')
            if d.endswith('::None'):
                return 'None'
            return None
        if k == 'mcall':
            c = cname(n.get('c'))
            r = ev(n['r'], env, nonempty)
            if c.endswith('Iterator::next'):
                return 'Some' if nonempty else 'None'
            if n['m'] == 'is_some' and r in ('Some', 'None'):
                return r == 'Some'
            if n['m'] == 'is_none' and r in ('Some', 'None'):
                return r == 'None'
            if n['m'] == 'into_iter':
                return r
            return None
        if k == 'call':
            f = strip(n['f'])
            if f.get('k') == 'path' and f.get('d', '').endswith('::Some'):
                return 'Some'
            return None
        if k == 'unary' and n['op'] == 'not':
            v = ev(n['e'], env, nonempty)
            return (not v) if isinstance(v, bool) else None
        if k == 'if':
            c = ev(n['c'], env, nonempty)
            if c is True:
                return ev(n['th'], env, nonempty)
            if c is False and 'el' in n:
                return ev(n['el'], env, nonempty)
            return None
        if k == 'match':
            s = ev(n['e'], env, nonempty)
            if s in ('Some', 'None'):
                for a in n['arms']:
                    p = a['p']
                    d = (p.get('path') or {}).get('d', '')
                    if p.get('k') in ('wild', 'bind') or d.endswith('::' + s):
                        return ev(a['b'], env, nonempty)
            return None
        return None
    r_empty = ev(b['tree'], {}, False)
    r_nonempty = ev(b['tree'], {}, True)
    if r_empty not in ('Some', 'None') or r_nonempty not in ('Some', 'None'):
        return 'unrecognised'
    if r_empty == 'Some' and r_nonempty == 'None':
        return 'some-iff-empty'
    return 'on %s input' % ('non-empty' if r_nonempty == 'Some' else 'no') + (' and on empty input' if r_empty == 'Some' and r_nonempty == 'Some' else '')
