"""Small helpers over the typed-HIR trees of the fact files."""
from facts import children, walk, callee

TRANSPARENT_METHODS = {'as_ref', 'as_mut', 'deref', 'deref_mut', 'borrow', 'borrow_mut', 'by_ref', 'iter_mut', 'iter',
                       'get_mut', 'unwrap', 'as_deref', 'as_deref_mut'}
TRANSPARENT_FNS_SUFFIX = ('::make_mut', '::as_mut', '::as_ref', '::deref', '::deref_mut', '::get_mut')


def strip(n):
    """Peel no-op wrappers: single-tail blocks without statements, `use`, type ascription, casts are NOT peeled."""
    while True:
        k = n.get('k')
        if k == 'block' and not n['ss'] and 'e' in n and not n.get('unsafe'):
            n = n['e']; continue
        if k in ('use', 'type'):
            n = n['e']; continue
        return n


def root_local(n):
    """The local binding a place/borrow expression is rooted in, looking through fields, derefs, borrows,
    indexing and reference-preserving accessor calls. Returns the path node of the local or None."""
    while True:
        n = strip(n)
        k = n.get('k')
        if k == 'path':
            return n if n.get('res') == 'local' else None
        if k in ('field', 'addr', 'index', 'cast'):
            n = n['e']; continue
        if k == 'unary' and n['op'] == 'deref':
            n = n['e']; continue
        if k == 'mcall' and n['m'] in TRANSPARENT_METHODS:
            n = n['r']; continue
        if k == 'call':
            c = callee(n)
            name = (c or {}).get('d', '')
            if name.endswith(TRANSPARENT_FNS_SUFFIX) and n['a']:
                n = n['a'][0]; continue
            return None
        return None


def place_path(n):
    """Canonical textual access path of a place expression rooted in a local: ('name#id', ['.0', '*', ...])."""
    acc = []
    while True:
        n = strip(n)
        k = n.get('k')
        if k == 'path':
            if n.get('res') == 'local':
                return (n['id'], n['n'], list(reversed(acc)))
            return None
        if k == 'field':
            acc.append('.' + n['n']); n = n['e']; continue
        if k == 'addr':
            n = n['e']; continue
        if k == 'unary' and n['op'] == 'deref':
            n = n['e']; continue
        if k == 'mcall' and n['m'] in TRANSPARENT_METHODS:
            n = n['r']; continue
        return None


def lit_bool(n):
    n = strip(n)
    if n.get('k') == 'lit' and n.get('v') in ('true', 'false'):
        return n['v'] == 'true'
    return None


def calls_in(n):
    """All call-like nodes (call, mcall, overloaded operators) below n with their callee records."""
    for x, ps in walk(n):
        c = callee(x)
        if c is not None:
            yield x, c, ps


def cname(c):
    """trait-level / definition-level path of a callee record"""
    return c.get('d', '') if c else ''


def iname(c):
    """most precise resolved path"""
    if not c:
        return ''
    return c.get('pi') or c.get('i') or c.get('d', '')


def pat_bindings(p, out=None):
    if out is None:
        out = []
    k = p.get('k')
    if k == 'bind':
        out.append(p)
        if 'sub' in p:
            pat_bindings(p['sub'], out)
    for key in ('ps',):
        for x in p.get(key, []) or []:
            pat_bindings(x, out)
    if 'p' in p and isinstance(p['p'], dict):
        pat_bindings(p['p'], out)
    for f in p.get('fs', []) or []:
        pat_bindings(f['p'], out)
    return out


def param_ids(body):
    """binding ids / names of the parameters of a body, in order (None for non-simple patterns)"""
    out = []
    for p in body['params']:
        if p['k'] == 'bind':
            out.append((p['id'], p['n']))
        else:
            out.append((None, None))
    return out
