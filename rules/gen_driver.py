"""Runs G-rules over all generated programs (corpus + programs shipped in /repo)."""
import json, os
from genmodel import find_programs, parse_program, Unrecognised
import gen_rules
from gen_rules import PG
import lib_rules
from core import Broken


def all_programs(ctx, rep, corpus=True, shipped=True):
    """-> list of PG. Parsing failures of corpus programs are check failures (the corpus is ours); shipped programs that the
    model does not cover are skipped and listed."""
    key = ('pgs', corpus, shipped)
    if key in ctx._cache:
        return ctx._cache[key]
    libs = [ctx.lib('ascent'), ctx.lib('ascent_byods_rels')]
    out = []
    skipped = []
    crates = []
    if corpus:
        crates += [(c, True) for c in ctx.corpus() if c.name.startswith('corpus_')]
    if shipped:
        crates += [(c, False) for c in ctx.repo_programs()]
    for cr, ours in crates:
        for p in find_programs(cr):
            try:
                parse_program(p)
                unp = sum(len(s.unparsed) + len(s.main_unparsed) for s in p.sccs)
                if unp:
                    raise Unrecognised('%s: %d statements of an scc block not recognised' % (p.path, unp))
                pg = PG(p, libs)
                pg.ours = ours
                pg.crate = cr.name
                out.append(pg)
            except Unrecognised as e:
                if ours:
                    raise Broken('corpus program not recognised by the generated-code model: %s' % e)
                skipped.append(str(e))
    ctx._cache[key] = (out, skipped)
    return out, skipped


def writer_classes(ctx, rep):
    if 'wc' not in ctx._cache:
        from core import Report
        tmp = Report(rep.pid)
        ctx._cache['wc'] = lib_rules.classify_writers(ctx, tmp)
    return ctx._cache['wc']


def load_spec(ctx):
    import extract
    p = os.path.join(extract.WORK, 'corpus_ws', 'spec.json')
    return json.load(open(p))


def run_gen(ctx, rep, rules, only_par=False, only_tags=None, floors=None):
    """run the named G-rules over corpus + shipped programs"""
    pgs, skipped = all_programs(ctx, rep)
    wc = writer_classes(ctx, rep)
    n = 0
    spec = load_spec(ctx) if only_tags else None
    for pg in pgs:
        if only_par and not pg.p.is_par:
            continue
        if only_tags:
            sp = spec.get(pg.crate + '::' + pg.p.path.split('::')[0]) if pg.ours else None
            if sp is None or not (set(only_tags) & set(sp.get('tags', []))):
                continue
        n += 1
        rep.programs.add(pg.crate + '::' + pg.p.path)
        rep.functions.add(pg.p.path + '::run')
        for r in rules:
            if r == 'G5':
                gen_rules.check_G5(pg, rep, wc)
            elif r == 'G1G3':
                gen_rules.check_G1_G3(pg, rep, wc)
            elif r == 'UI':
                gen_rules.check_update_indices(pg, rep, wc)
            elif r == 'G8':
                gen_rules.check_G8(pg, rep)
            elif r == 'G17':
                gen_rules.check_G17(pg, rep)
            elif r == 'G2G7':
                gen_rules.check_G2_G7(pg, rep)
            elif r == 'G9':
                gen_rules.check_G9(pg, rep)
            elif r == 'USES':
                gen_rules.check_row_store_uses(pg, rep)
            elif r == 'G6':
                gen_rules.check_G6(pg, rep, ctx)
            elif r == 'G3r':
                gen_rules.check_G3r(pg, rep)
            elif r == 'G3r.maint':
                # only the maintenance half (C13: what the first run() misses, the second - after re-indexing - finds)
                gen_rules.check_G3r(pg, rep, with_g13=False)
            elif r == 'G3r.mono':
                # C03 speaks about programs that use lattice values monotonically: an index keyed by the lattice value is an equality
                # test on it and outside that premise (C06 owns those: plan independence)
                gen_rules.check_G3r(pg, rep, skip_lattice_value_keys=True)
            elif r == 'G15':
                gen_rules.check_G15(pg, rep)
            elif r == 'G14':
                gen_rules.check_G14(pg, rep)
            elif r == 'G12':
                gen_rules.check_G12(pg, rep)
            elif r == 'G10':
                gen_rules.check_G10(pg, rep)
            else:
                raise Broken('unknown rule ' + r)
    for s in skipped:
        rep.notes.append('shipped program not covered by the generated-code model: ' + s)
    if n == 0:
        raise Broken('no program selected')
    for rule, fl in (floors or {}).items():
        rep.floor(rule, fl, 'instances over corpus + shipped programs')
    return n


def run_tv(ctx, rep, floors=None, only_tags=None):
    """R1-R5 over every corpus program that has a spec without unexpanded sugar"""
    import tv_rules
    pgs, skipped = all_programs(ctx, rep)
    spec = load_spec(ctx)
    n = 0
    for pg in pgs:
        if not pg.ours:
            continue
        name = pg.p.path.split('::')[0]
        sp = spec.get(pg.crate + '::' + name)
        if sp is None:
            raise Broken('corpus program %s has no spec' % pg.p.path)
        if only_tags and not (set(only_tags) & set(sp.get('tags', []))):
            continue
        k = tv_rules.check_program(pg, sp, rep)
        if k:
            rep.programs.add(pg.crate + '::' + pg.p.path)
        n += k
    for rule, fl in (floors or {}).items():
        rep.floor(rule, fl, 'translation-validated rules')
    return n


def run_twins(ctx, rep, select, floors=None):
    """compare every twin pair whose first program name satisfies select(name, kind)"""
    import twins, tv_rules
    pgs, skipped = all_programs(ctx, rep)
    spec = load_spec(ctx)
    by_name = {}
    for pg in pgs:
        if pg.ours:
            by_name[pg.p.path.split('::')[0]] = pg
    n = 0
    for key, sp in sorted(spec.items()):
        tw = sp.get('twin')
        if not tw:
            continue
        name = sp['name']
        other, kind = tw[0], tw[1]
        par = name.endswith('_par')
        if par and not other.endswith('_par') and (other + '_par') in by_name:
            other = other + '_par'
        if not select(name, kind):
            continue
        a, b = by_name.get(name), by_name.get(other)
        if a is None or b is None:
            if ctx.meta.get('corpus_failed'):
                # a corpus family does not compile against the current tree: a program documented to be equivalent to its twin is
                # rejected (one report per family, naming the first compiler error)
                crate = sp.get('crate')
                ocrate = next((v.get('crate') for k_, v in spec.items() if v['name'] == other), None)
                for cnm in {crate, ocrate} & set(ctx.meta['corpus_failed']):
                    if ('twinfam', cnm) not in ctx._cache:
                        ctx._cache[('twinfam', cnm)] = True
                        rep.viol('T', 'corpus family ' + cnm, 'twin-program-rejected',
                                 'programs of this family - each documented to be equivalent to a twin - no longer compile: ' +
                                 (ctx.meta.get('corpus_first_error', {}).get(cnm) or 'see stderr'))
                rep.notes.append('twin pair %s / %s not compared: its corpus family does not compile' % (name, other))
                continue
            raise Broken('twin pair %s / %s: program missing from the corpus facts' % (name, other))
        n += 1
        rep.programs.add(name); rep.programs.add(other)
        where = 'twin %s ~ %s' % (name, other)
        if kind in ('C', 'timeout', 'ruletimes'):
            d = twins.diff_code(twins.code_model(a), twins.code_model(b))
            rep.inst('T.C', '%s: normalised generated code identical: %s' % (where, d is None))
            if d is not None:
                rep.viol('T', where, 'code-differs', 'the two programs are documented to be equivalent but expand differently: ' + d)
        elif kind == 'L':
            d = twins.diff_logical(twins.logical_rules(a), twins.logical_rules(b))
            rep.inst('T.L', '%s: reconstructed logical rule variants identical: %s' % (where, d is None))
            if d is not None:
                rep.viol('T', where, 'logic-differs', 'the two programs are documented to be equivalent but evaluate different rule sets: ' + d)
        elif kind == 'generic':
            d = twins.diff_logical(twins.logical_rules(a, shallow=True), twins.logical_rules(b, shallow=True))
            rep.inst('T.G', '%s: same logical rule variants modulo the column type: %s' % (where, d is None))
            if d is not None:
                rep.viol('T', where, 'generic-differs', 'generic and monomorphic program evaluate different rule sets: ' + d)
        elif kind == 'V':
            k1 = tv_rules.check_program(a, sp, rep)
            k2 = tv_rules.check_program(b, spec[b.crate + '::' + other], rep)
            rep.inst('T.V', '%s: both programs translation-validated against their own (logically equivalent) text: %d + %d rules' % (where, k1, k2))
        elif kind == 'S':
            # both sides are translation-validated against their own spec; the specs are equal as sets modulo the renaming
            ren = tw[2] if len(tw) > 2 else {}
            sa, sb = spec_rules(sp, ren), spec_rules(spec[b.crate + '::' + other], {})
            ok = sa == sb
            tv_rules.check_program(a, sp, rep)
            tv_rules.check_program(b, spec[b.crate + '::' + other], rep)
            rep.inst('T.S', '%s: rule sets equal up to body order / renaming: %s (both sides translation-validated)' % (where, ok))
            if not ok:
                raise Broken('twin pair %s / %s: the corpus descriptions are not equivalent' % (name, other))
        else:
            raise Broken('unknown twin kind ' + kind)
    for rule, fl in (floors or {}).items():
        rep.floor(rule, fl, 'twin pairs')
    return n


def spec_rules(sp, ren):
    import re

    def rn(txt):
        return re.sub(r'[A-Za-z_][A-Za-z0-9_]*', lambda m: ren.get(m.group(0), m.group(0)), txt or '')
    out = []
    for r in sp['rules']:
        heads = tuple(sorted((rn(h['rel']), tuple(rn(a or '') for a in h['args'])) for h in r['heads']))
        body = []
        for b in r['body']:
            if b['t'] == 'clause':
                body.append(('clause', rn(b['rel']), tuple(rn(str(sorted(a.items()))) for a in b['args']), tuple(rn(str(sorted(c.items()))) for c in b['conds'])))
            else:
                body.append((b['t'], rn(str(sorted((k, str(v)) for k, v in b.items())))))
        # conditions attached to clauses float: compare as a flat multiset
        flat = []
        for b in body:
            if b[0] == 'clause':
                flat.append(b[:3]); flat.extend(('cond', c) for c in b[3])
            elif b[0] == 'if':
                flat.append(('cond', b[1]))
            else:
                flat.append(b)
        out.append((heads, tuple(sorted(flat, key=repr))))
    return sorted(out, key=repr)


def run_ser_par_twins(ctx, rep, floor=40):
    """every corpus program that exists as `X` (serial) and `X_par` (parallel, same text): both reconstruct to the same logical rules"""
    import twins
    pgs, skipped = all_programs(ctx, rep)
    by_name = {pg.p.path.split('::')[0]: pg for pg in pgs if pg.ours}
    spec = load_spec(ctx)
    n = 0
    for name, a in sorted(by_name.items()):
        b = by_name.get(name + '_par')
        if b is None or name.endswith('_par'):
            continue
        sa, sb = spec.get(a.crate + '::' + name), spec.get(b.crate + '::' + name + '_par')
        if not sa or not sb or [r['text'] for r in sa['rules']] != [r['text'] for r in sb['rules']]:
            continue        # not the same program text
        n += 1
        d = twins.diff_logical(twins.logical_rules(a), twins.logical_rules(b))
        rep.inst('T.SP', 'serial %s ~ parallel %s_par: same logical rule variants: %s' % (name, name, d is None))
        rep.programs.add(name); rep.programs.add(name + '_par')
        if d is not None:
            rep.viol('T', 'twin %s ~ %s_par' % (name, name), 'ser-par-logic-differs',
                     'the serial and the parallel expansion of the same program evaluate different rule sets: ' + d)
    rep.floor('T.SP', floor, 'serial/parallel program pairs')
    return n
