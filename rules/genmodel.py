"""Model of the code the ascent macros generate, recovered from the typed HIR of an expanded program.

Recognition is by resolved callee, type and tree position. Local variable *names* are not trusted: the three versions of an
index are tied together by the `RelIndexMerge::init(new, delta, total)` call the generator emits for every dynamic index
(argument order = role) and by the `mem::take(&mut _self.<field>)` that initialises the delta / body-only total."""
import re
from facts import walk, callee, children
from tree import strip, cname, lit_bool, pat_bindings
from lib_rules import chain_root
from core import Broken

TAKE = ('mem::take',)


class Unrecognised(Exception):
    pass


def is_call_to(n, suffixes):
    n = strip(n)
    c = callee(n)
    return bool(c) and cname(c).endswith(tuple(suffixes))


def self_field(n, self_ids):
    """if n is (a borrow of) `_self.<field>` return the field name"""
    n = strip(n)
    while n.get('k') == 'addr':
        n = strip(n['e'])
    if n.get('k') == 'field':
        b = strip(n['e'])
        while b.get('k') in ('addr',) or (b.get('k') == 'unary' and b['op'] == 'deref'):
            b = strip(b['e'])
        if b.get('k') == 'path' and b.get('res') == 'local' and b['id'] in self_ids:
            return n['n']
    return None


def local_of(n):
    n = strip(n)
    while n.get('k') == 'addr':
        n = strip(n['e'])
    if n.get('k') == 'path' and n.get('res') == 'local':
        return n
    return None


class Program:
    def __init__(self, cr, struct_path, adt):
        self.cr = cr
        self.path = struct_path
        self.adt = adt
        self.fields = {f['n']: cr.s(f['ty']) for f in adt['variants'][0]['fields']}
        self.relations = {}
        for fn, ty in self.fields.items():
            m = re.match(r'^__(.+)_ind_common$', fn)
            if m and m.group(1) in self.fields:
                self.relations[m.group(1)] = {'name': m.group(1), 'row_ty': self.fields[m.group(1)], 'common': fn, 'indices': {}, 'mutex': None}
        for fn, ty in self.fields.items():
            m = re.match(r'^(.+)_indices_([0-9_]+|none)$', fn)
            if m and m.group(1) in self.relations:
                cols = [] if m.group(2) == 'none' else [int(x) for x in m.group(2).split('_')]
                self.relations[m.group(1)]['indices'][fn] = {'field': fn, 'name_cols': cols, 'ty': ty, 'cols': None}
            m = re.match(r'^__(.+)_mutex$', fn)
            if m and m.group(1) in self.relations:
                self.relations[m.group(1)]['mutex'] = fn
        self.index_fields = {i: (r, self.relations[r]['indices'][i]) for r in self.relations for i in self.relations[r]['indices']}
        self.common_fields = {self.relations[r]['common']: r for r in self.relations}
        self.entry = {}     # 'run' / 'run_timeout' / 'update_indices_priv' / 'default' -> body
        self.run_block = None   # for ascent_run!: (enclosing body, block)
        self.sccs = []
        self.is_par = any('boxcar::Vec' in r['row_ty'] or 'CRel' in ''.join(i['ty'] for i in r['indices'].values()) for r in self.relations.values())
        self.is_run_macro = False

    def rel_arity(self, r):
        ty = self.relations[r]['row_ty']
        return None

    def is_lattice(self, r):
        # lattices have the unit type as rel_ind_common and no provider macro: their row store is Vec<(..)> / boxcar of RwLock
        return self.fields[self.relations[r]['common']] == '()' and any(
            'LatticeIndexType' in i['ty'] or 'HashSet<usize' in i['ty'] or 'RwLock' in self.relations[r]['row_ty'] or 'CLatIndex' in i['ty']
            for i in self.relations[r]['indices'].values()) and self._lat_hint(r)

    def _lat_hint(self, r):
        return self.relations[r].get('lattice', False)


def find_programs(cr):
    progs = []
    for path, adt in cr.adts.items():
        if adt['kind'] != 'struct' or not adt['variants']:
            continue
        fns = {f['n'] for f in adt['variants'][0]['fields']}
        if not ({'scc_times', 'scc_iters'} <= fns or any(f.startswith('__') and f.endswith('_ind_common') for f in fns)):
            continue
        p = Program(cr, path, adt)
        for nm in ('run', 'run_timeout', 'update_indices_priv', 'update_indices'):
            b = cr.bodies.get(path + '::' + nm)
            if b:
                p.entry[nm] = b
        d = cr.bodies.get('<%s as std::default::Default>::default' % path)
        if d is None:
            # generic programs: `<P<N> as Default>::default`
            for bp, b in cr.bodies.items():
                if b['name'] == 'default' and (b.get('impl_of') or '').startswith('<' + path) and 'Default' in (b.get('impl_of') or ''):
                    d = b
        if d is None:
            for bp, b in cr.bodies.items():
                if b['name'] == 'default' and (b.get('impl_of') or '').startswith('<' + path.split('<')[0]):
                    d = b
        p.entry['default'] = d
        if 'run' not in p.entry:
            # generic struct: methods are printed as `P::<N>::run`
            base = path
            for bp, b in cr.bodies.items():
                if b.get('impl_of') and b['impl_of'].split('<')[0] == base.split('<')[0] and b['name'] in ('run', 'run_timeout', 'update_indices_priv'):
                    p.entry[b['name']] = b
        if 'run' not in p.entry:
            # ascent_run!: the struct is local to a function; the run code is a block of that function
            parent = path.rsplit('::', 1)[0]
            b = cr.bodies.get(parent)
            if b is None:
                continue
            p.is_run_macro = True
            p.run_block = b
            for bp, bb in cr.bodies.items():
                if bb.get('impl_of') and bb['impl_of'].split('<')[0] == path.split('<')[0] and bb['name'] in ('update_indices_priv',):
                    p.entry[bb['name']] = bb
        progs.append(p)
    return progs


def parse_program(p):
    """fills p.sccs, p.prologue (statements before the first scc), p.self_ids"""
    cr = p.cr
    if p.is_run_macro:
        body = p.run_block
        # find the block that contains `let _self = &mut __run_res`
        blk = None
        for n, parents in walk(body['tree']):
            if n.get('k') == 'block':
                for s in n['ss']:
                    if _is_self_alias(p, s, set()):
                        blk = n
        if blk is None:
            raise Unrecognised('%s: ascent_run block not found' % p.path)
        p.run_fn = body
        p.run_main = blk
        _parse_run_block(p, blk, body)
    else:
        entry = p.entry.get('run_timeout') or p.entry.get('run')
        if entry is None:
            raise Unrecognised('%s: no run function' % p.path)
        t = strip(entry['tree'])
        if t.get('k') != 'block':
            raise Unrecognised('%s: run body is not a block' % p.path)
        p.run_fn = entry
        p.run_main = t
        _parse_run_block(p, t, entry)
    return p


def _is_self_alias(p, s, self_ids):
    """`let X = self;` or `let X = &mut <local holding the program struct>;` - recognised by type and initialiser, not by name"""
    if s['k'] != 'let' or s['p'].get('k') != 'bind' or 'i' not in s:
        return False
    cr = p.cr
    t = (cr.ty(s['p']) or '')
    base = p.path.split('<')[0]
    if not t.startswith('&mut ') or base.split('::')[-1] not in t:
        return False
    init = strip(s['i'])
    while init.get('k') == 'addr':
        init = strip(init['e'])
    return init.get('k') == 'path' and init.get('res') == 'local'


def _parse_run_block(p, blk, body):
    cr = p.cr
    self_ids = set()
    if body['params'] and body['params'][0].get('k') == 'bind' and (cr.ty(body['params'][0]) or '').startswith('&mut '):
        self_ids.add(body['params'][0]['id'])
    stmts = list(blk['ss'])
    if 'e' in blk:
        stmts.append({'k': 'expr', 'e': blk['e'], 'tail': True})
    p.prologue = []
    p.sccs = []
    i = 0
    cur_label = None
    while i < len(stmts):
        s = stmts[i]
        if _is_self_alias(p, s, self_ids):
            self_ids.add(s['p']['id'])
            p.prologue.append(s); i += 1; continue
        if s['k'] in ('expr', 'semi'):
            e = strip(s['e'])
            if is_call_to(e, ['internal::comment']):
                i += 1; continue      # labels are informational only
            # a stratum = a top-level block statement after the self alias that takes index fields out of the program struct
            if e.get('k') == 'block' and self_ids and _looks_like_scc(e, self_ids):
                p.sccs.append(_parse_scc(p, len(p.sccs), e, self_ids))
                i += 1; continue
            if not p.sccs:
                p.prologue.append(s)
            else:
                p.epilogue = getattr(p, 'epilogue', []) + [s]
        else:
            if not p.sccs:
                p.prologue.append(s)
            else:
                p.epilogue = getattr(p, 'epilogue', []) + [s]
        i += 1
    p.self_ids = self_ids
    if not hasattr(p, 'epilogue'):
        p.epilogue = []


class Scc:
    pass


def _looks_like_scc(blk, self_ids):
    for s in blk['ss']:
        if s['k'] == 'let' and 'i' in s:
            init = strip(s['i'])
            if is_call_to(init, TAKE) and init.get('a') and self_field(init['a'][0], self_ids) is not None:
                return True
    return False


def _is_now(init):
    c = callee(strip(init))
    return bool(c) and cname(c).endswith('Instant::now')


def _parse_scc(p, idx, blk, self_ids):
    cr = p.cr
    sc = Scc()
    sc.idx = idx
    sc.block = blk
    sc.versions = {}      # local id -> (field, version)
    sc.dynamic = {}       # field -> {'delta': id, 'total': id, 'new': id, 'ty': type}
    sc.body_only = {}     # field -> id
    sc.inits = []         # init call nodes
    sc.pre_freeze = []    # fields frozen in place before being taken (par, body-only)
    sc.stores = []        # (field, local id, node)
    sc.main = None        # loop node or inner block
    sc.looping = False
    sc.unparsed = []
    stmts = blk['ss']
    takes = {}            # local id -> field
    defaults = {}         # local id -> type
    for s in stmts:
        if s['k'] == 'let' and 'i' in s and s['p'].get('k') == 'bind':
            init = strip(s['i'])
            lid = s['p']['id']
            if is_call_to(init, TAKE) and init['a']:
                f = self_field(init['a'][0], self_ids)
                if f is not None:
                    takes[lid] = (f, bool(s['p'].get('mut')), cr.ty(s['p']))
                    continue
            c = callee(init)
            if c and (cname(c).endswith('Default::default') or (c.get('i') or '').endswith('Default>::default')):
                defaults[lid] = cr.ty(s['p'])
                continue
            if _is_now(s['i']):
                continue
            sc.unparsed.append(s)
        elif s['k'] in ('expr', 'semi'):
            e = strip(s['e'])
            c = callee(e)
            nm = cname(c) if c else ''
            if nm.endswith('RelIndexMerge::init') and e.get('k') == 'call' and len(e['a']) == 3:
                sc.inits.append(e)
                continue
            if e.get('k') == 'mcall' and nm.endswith('Freezable::freeze'):
                f = self_field(e['r'], self_ids)
                if f is not None:
                    sc.pre_freeze.append(f)
                    continue
            if e.get('k') == 'loop' and e.get('src') == 'loop':
                sc.main = e['b']; sc.looping = True; sc.main_node = e
                continue
            if e.get('k') == 'block':
                sc.main = e; sc.looping = False; sc.main_node = e
                continue
            if e.get('k') == 'assign':
                f = self_field(e['l'], self_ids)
                v = local_of(e['r'])
                if f is not None and v is not None:
                    sc.stores.append((f, v['id'], e))
                    continue
            if e.get('k') == 'assignop' and self_field(strip(e['l']).get('e', {}), self_ids) == 'scc_times':
                continue
            sc.unparsed.append(s)
        else:
            sc.unparsed.append(s)
    # roles from the init calls
    used = set()
    for e in sc.inits:
        ids = []
        for a in e['a']:
            r = chain_root(a)
            ids.append(r['id'] if r is not None else None)
        new_id, delta_id, total_id = ids
        if delta_id not in takes:
            raise Unrecognised('%s scc %d: init() whose delta is not a taken field' % (p.path, idx))
        f = takes[delta_id][0]
        sc.dynamic[f] = {'delta': delta_id, 'total': total_id, 'new': new_id, 'ty': takes[delta_id][2], 'init': e}
        for v, lid in (('delta', delta_id), ('total', total_id), ('new', new_id)):
            sc.versions[lid] = (f, v)
            used.add(lid)
        if total_id not in defaults or new_id not in defaults:
            raise Unrecognised('%s scc %d: total/new of %s are not fresh Default values' % (p.path, idx, f))
    for lid, (f, mut, ty) in takes.items():
        if lid not in used:
            sc.body_only[f] = lid
            sc.versions[lid] = (f, 'total')
    if sc.main is None:
        raise Unrecognised('%s scc %d: no evaluation block' % (p.path, idx))
    _parse_main(p, sc, self_ids)
    return sc


def _parse_main(p, sc, self_ids):
    cr = p.cr
    sc.changed = None       # (id, kind 'bool'|'atomic', node)
    sc.freezes = []         # (local id, node)
    sc.unfreezes = []
    sc.rules = []           # {'label':..., 'closure': node, 'node': call, 'spawned': bool}
    sc.merges = []          # call nodes
    sc.break_if = None
    sc.returns = []         # `if <timeout guard> { return false }` nodes
    sc.iters_inc = None
    sc.main_unparsed = []
    sc.order = []           # sequence of (kind, node) in statement order
    stmts = list(sc.main['ss'])
    if 'e' in sc.main:
        stmts.append({'k': 'expr', 'e': sc.main['e']})
    pending_label = None

    def add_rule(call, spawned):
        nonlocal pending_label
        clo = strip(call['a'][0]) if call['a'] else None
        if clo is None or clo.get('k') != 'closure':
            raise Unrecognised('%s scc %d: run_rule without closure' % (p.path, sc.idx))
        sc.rules.append({'label': pending_label, 'closure': clo, 'node': call, 'spawned': spawned})
        sc.order.append(('rule', call))
        pending_label = None

    for s in stmts:
        if s['k'] == 'let' and 'i' in s and s['p'].get('k') == 'bind':
            init = strip(s['i'])
            is_flag = lit_bool(init) is not None or is_call_to(init, ['AtomicBool::new', 'Atomic::<bool>::new'])
            if is_flag and sc.changed is None:
                # the change flag: the (first) bool / AtomicBool local of the iteration
                lb = lit_bool(init)
                if lb is False:
                    sc.changed = (s['p']['id'], 'bool', s)
                elif lb is None and lit_bool(init['a'][0]) is False:
                    sc.changed = (s['p']['id'], 'atomic', s)
                else:
                    raise Unrecognised('%s scc %d: change flag not initialised to false' % (p.path, sc.idx))
                sc.order.append(('changed', s))
                continue
            if _is_now(init):
                continue
            sc.main_unparsed.append(s); continue
        if s['k'] not in ('expr', 'semi'):
            if s['k'] != 'item':
                sc.main_unparsed.append(s)
            continue
        e = strip(s['e'])
        c = callee(e)
        nmc = cname(c) if c else ''
        if is_call_to(e, ['internal::comment']):
            pending_label = strip(e['a'][0]).get('v', '').strip('"')
            continue
        if nmc.endswith('internal::run_rule'):
            add_rule(e, False); continue
        if nmc.endswith('rayon::scope') or nmc.endswith('rayon_core::scope') or nmc.endswith('::scope'):
            clo = strip(e['a'][0])
            sc.scope = e
            inner = strip(clo['b'])
            for s2 in inner['ss'] + ([{'k': 'expr', 'e': inner['e']}] if 'e' in inner else []):
                if s2['k'] not in ('expr', 'semi'):
                    continue
                e2 = strip(s2['e'])
                if is_call_to(e2, ['internal::comment']):
                    pending_label = strip(e2['a'][0]).get('v', '').strip('"'); continue
                if e2.get('k') == 'mcall' and e2['m'] == 'spawn':
                    sclo = strip(e2['a'][0])
                    found = False
                    for x, _ in walk(sclo['b']):
                        if x.get('k') == 'call' and callee(x) and cname(callee(x)).endswith('internal::run_rule'):
                            add_rule(x, True); found = True; break
                    if not found:
                        raise Unrecognised('%s scc %d: spawn without run_rule' % (p.path, sc.idx))
                    continue
                sc.main_unparsed.append(s2)
            continue
        if e.get('k') == 'mcall' and nmc.endswith('Freezable::freeze'):
            l = local_of(e['r'])
            if l is not None:
                sc.freezes.append((l['id'], e)); sc.order.append(('freeze', e)); continue
        if e.get('k') == 'mcall' and nmc.endswith('Freezable::unfreeze'):
            l = local_of(e['r'])
            if l is not None:
                sc.unfreezes.append((l['id'], e)); sc.order.append(('unfreeze', e)); continue
        if e.get('k') == 'call' and nmc.split('::')[-1] == 'merge_delta_to_total_new_to_delta' and len(e['a']) == 3:
            sc.merges.append(e); sc.order.append(('merge', e)); continue
        if e.get('k') == 'assignop' and e['op'] == '+=':
            l = strip(e['l'])
            if l.get('k') == 'index' and self_field(l['e'], self_ids) == 'scc_iters':
                sc.iters_inc = e; sc.order.append(('iters', e)); continue
            f = self_field(l, self_ids)
            if f and re.match(r'^rule\d+_\d+_duration$', f):
                continue
        if e.get('k') == 'if':
            th = strip(e['th'])
            # index shifts must not be conditional: remember them, G5 reports
            cm = [x for x, _ in walk(e) if x.get('k') == 'call' and callee(x) and cname(callee(x)).split('::')[-1] == 'merge_delta_to_total_new_to_delta']
            if cm:
                sc.cond_merges = getattr(sc, 'cond_merges', []) + [(e, cm)]
                for m_ in cm:
                    sc.merges.append(m_); sc.order.append(('merge', m_))
                continue
            # `if !changed { break }`
            has_break = any(x.get('k') == 'break' for x, _ in walk(th))
            has_ret = any(x.get('k') == 'ret' for x, _ in walk(th))
            if has_break and 'el' not in e:
                sc.break_if = e; sc.order.append(('break', e)); continue
            if has_ret and 'el' not in e:
                sc.returns.append(e); sc.order.append(('return', e)); continue
        sc.main_unparsed.append(s)


def derive_index_columns(p):
    """From update_indices_priv: for every index field the columns of its key (projection `tuple.c` in key order) and of its
    value (row number / complementary columns). This is the *writer's* definition of each index."""
    cr = p.cr
    b = p.entry.get('update_indices_priv')
    if b is None:
        raise Unrecognised('%s: update_indices_priv not found' % p.path)
    self_ids = {b['params'][0]['id']}
    out = {}
    sites = []
    for n, parents in walk(b['tree']):
        c = callee(n)
        if not c or not cname(c).endswith(('RelIndexWrite::index_insert',)) or n.get('k') != 'call' or len(n['a']) != 3:
            continue
        # receiver: `&mut self.<idx>` (maybe through a local `rel_ind`) [.to_rel_index_write(&mut self.<common>)]
        recv = n['a'][0]
        fld = None
        for x, _ in walk(recv):
            f = self_field(x, self_ids) if x.get('k') in ('field', 'addr') else None
            if f in p.index_fields:
                fld = f
        if fld is None:
            r = chain_root(recv)
            if r is not None:
                # `let rel_ind = &mut self.F;`
                for y, _ in walk(b['tree']):
                    if y.get('k') == 'let' and 'i' in y and y['p'].get('k') == 'bind' and y['p']['id'] == r['id']:
                        f = self_field(y['i'], self_ids)
                        if f in p.index_fields:
                            fld = f
        if fld is None:
            raise Unrecognised('%s: index_insert in update_indices_priv on an unknown receiver' % p.path)
        key = _proj(n['a'][1], b)
        val = _proj(n['a'][2], b)
        out[fld] = {'key': key, 'val': val, 'node': n, 'parents': parents}
        sites.append((fld, n, parents))
    return out, sites


def _proj(e, body):
    """describe a key/value expression: list of column numbers for `(tuple.a.clone(), ..)`, 'rowid' for the enumeration index,
    None if not recognised. A local (`selection_tuple`) is followed to its definition."""
    e = strip(e)
    if e.get('k') == 'path' and e.get('res') == 'local':
        for y, _ in walk(body['tree']):
            if y.get('k') == 'let' and 'i' in y and y['p'].get('k') == 'bind' and y['p']['id'] == e['id']:
                return _proj(y['i'], body)
        return 'rowid'
    if e.get('k') == 'tup':
        cols = []
        for x in e['es']:
            x = strip(x)
            if x.get('k') == 'mcall' and x['m'] == 'clone':
                x = strip(x['r'])
            if x.get('k') == 'field' and x['n'].isdigit():
                cols.append(int(x['n']))
            else:
                return None
        return cols
    return None
