#!/bin/bash
# try_patch.sh <patch-file> <PROP...> : apply a patch to /repo, run the given checks, always restore /repo
P=$(readlink -f "$1"); shift
cd /repo || exit 2
if ! git apply --check "$P" 2>/dev/null; then echo "PATCH DOES NOT APPLY: $P"; exit 2; fi
git apply "$P"
trap 'git -C /repo checkout -q -- . ' EXIT
for prop in "$@"; do
  (cd /verif && ./check $prop 2>/dev/null | grep -E "VIOLATION|KNOWN-FINDING|CHECK-BROKEN|^\s+[A-Z][0-9A-Za-z.]* \[|: (ok|VIOLATED)" | cut -c1-400)
done
