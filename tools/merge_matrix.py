#!/usr/bin/env python3
"""merge_matrix.py <log>... : merge the logs of sharded tools/seed_matrix.sh runs into seeded/EXPECTED.txt and fill the
`detected_by_matrix` field of every seed's meta.json."""
import sys, json, os, re
V = os.path.dirname(os.path.dirname(os.path.abspath(__file__)))
lines = {}
for f in sys.argv[1:]:
    for l in open(f):
        l = l.rstrip('\n')
        if l.startswith('WARNING') or not l.strip():
            continue
        key = l.split(':')[0]
        lines[key] = l
out = ['# every seeded change / selftest patch applied to a scratch copy of /repo, all checks run (tools/seed_matrix.sh, sharded).',
       '# <item>: <check>(<rules that fired>) ...      an empty list = no check fires (superseded seeds, benign patches)']
for k in sorted(lines):
    out.append(lines[k])
open(os.path.join(V, 'seeded', 'EXPECTED.txt'), 'w').write('\n'.join(out) + '\n')
for k, l in lines.items():
    mp = os.path.join(V, 'seeded', k, 'meta.json')
    if os.path.exists(mp):
        m = json.load(open(mp))
        m['detected_by_matrix'] = l.split(':', 1)[1].strip() or '-'
        json.dump(m, open(mp, 'w'), indent=1)
print(len(lines), 'items')
