#!/bin/bash
# confirm_seed.sh <seed-id> <worktree> : independently confirm a seeded change delivered by a sub-agent in <worktree>/SEED
# (builds, pinned tests pass with the change, demo fails with it and passes without), then store it under /verif/seeded/<seed-id>/
set -u
ID=$1; WT=$2
OUT=/verif/seeded/$ID; mkdir -p $OUT
cd $WT || exit 2
cp SEED/patch.diff SEED/seed_demo.rs SEED/notes.md $OUT/ 2>/dev/null
git checkout -q -- . 2>/dev/null
# demo harness (e.g. an [[example]] stanza for the byods crate, which sets autoexamples = false): not part of the seeded change
for h in SEED/demo_*.diff; do [ -f "$h" ] && cp "$h" $OUT/ && git apply "$h"; done
if [ -f byods/ascent-byods-rels/examples/seed_demo.rs ]; then PKG=ascent-byods-rels; else PKG=ascent; fi
LOG=$OUT/confirm.log; : > $LOG
echo "== demo on ORIGINAL" >> $LOG
cargo run --offline -j 8 --example seed_demo -p $PKG >> $LOG 2>&1; RC_ORIG=$?
echo "rc=$RC_ORIG" >> $LOG
git apply $OUT/patch.diff || { echo "patch does not apply" >> $LOG; exit 2; }
echo "== build with change" >> $LOG
cargo build --workspace --offline -j 8 >> $LOG 2>&1; RC_BUILD=$?
echo "== tests with change" >> $LOG
cargo test --workspace --no-fail-fast --offline -j 8 2>&1 | grep -E "^test result|FAILED|failed" >> $LOG; 
TESTS_FAILED=$(grep -c "FAILED\|[1-9][0-9]* failed" $LOG)
git checkout -q -- ascent_macro/examples/scratchpad.rs 2>/dev/null
echo "== demo on CHANGED" >> $LOG
cargo run --offline -j 8 --example seed_demo -p $PKG >> $LOG 2>&1; RC_CHG=$?
echo "rc=$RC_CHG" >> $LOG
git apply -R $OUT/patch.diff
for h in SEED/demo_*.diff; do [ -f "$h" ] && git apply -R "$h"; done
PASSED=$(grep "^test result" $LOG | sed -E 's/.* ([0-9]+) passed.*/\1/' | paste -sd+ | bc)
echo "SUMMARY id=$ID build_rc=$RC_BUILD tests_failed_lines=$TESTS_FAILED tests_passed=$PASSED demo_orig_rc=$RC_ORIG demo_changed_rc=$RC_CHG pkg=$PKG" | tee -a $LOG
