#!/usr/bin/env python3
"""Print the prompt given to a fresh sub-agent that seeds a property-breaking change (only the property text + worktree path)."""
import json,sys
pid=sys.argv[1]; wt=sys.argv[2]; extra=sys.argv[3] if len(sys.argv)>3 else ""
p=[json.loads(l) for l in open('/verif/properties.jsonl') if json.loads(l)['id']==pid][0]
print(f"""You are helping to evaluate a verification effort for the Rust project s-arash/ascent (a Datalog-like logic language embedded in Rust via proc macros: `ascent!`, `ascent_run!`, `ascent_par!`, `ascent_run_par!`; crates ascent, ascent_base, ascent_macro, byods/ascent-byods-rels).

You have your own scratch git worktree of the repository at {wt} (work ONLY there; never touch /repo or /verif, do not read /verif). The sandbox is offline: always pass --offline to cargo and use `-j 4` to limit CPU use. Cargo.lock is already in the worktree. The crate `ascent_tests` does NOT build offline - ignore it.

Here is a semantic property the project should satisfy:

  id: {p['id']}
  title: {p['title']}
  statement: {p['statement']}
  quantifier: {p['quantifier']['text']}
  code it is anchored in: {', '.join(p['anchors']['files'])}

YOUR TASK: make a small, realistic change to the project's source (the kind of regression a maintainer could plausibly introduce in a refactor or an optimisation: a dropped case, a guard moved, an argument order swapped, a wrong version/variant used, a result thrown away, a flag hard-wired, an off-by-one ...) that BREAKS this property, while
  (a) the workspace still compiles: `cd {wt} && cargo build --workspace --offline -j 4`
  (b) the existing test suite still passes: `cd {wt} && cargo test --workspace --no-fail-fast --offline -j 4` (NOTE: the macro tests rewrite the tracked file ascent_macro/examples/scratchpad.rs - run `git checkout -- ascent_macro/examples/scratchpad.rs` afterwards; that rewrite is not part of your change),
  (c) the breakage needs something SPECIFIC to manifest - a particular program shape, a multi-step sequence of operations, an unusual input, a particular interleaving/thread count, a second call, a particular number of recursive clauses, two cooperating sites that each look fine alone ... - NOT something that any ordinary use (e.g. the README transitive-closure example) would expose at once.
{extra}
Then write a DEMONSTRATION: a small standalone program placed at {wt}/ascent/examples/seed_demo.rs (run with `cargo run --offline -j 4 --example seed_demo -p ascent`; if you need the byods crate put it at {wt}/byods/ascent-byods-rels/examples/seed_demo.rs and run with -p ascent-byods-rels) that exits 0 / prints OK on the ORIGINAL code and panics / exits non-zero on the CHANGED code. The demo must compare against an independently computed expected result (hand-written expected set or a naive reference computation), not against another run of the same code. Verify both directions yourself (use `git stash` / `git stash pop` or `git diff > x; git checkout`, careful not to lose the demo file).

Deliver, in the directory {wt}/SEED/ :
  - patch.diff : `git diff` of ONLY the source change (not the demo, not scratchpad.rs), applicable with `git apply` at the repo root
  - seed_demo.rs : copy of the demonstration program, and a line at its top saying which package/example path it belongs to
  - notes.md : which clause of the property breaks, why tests don't notice, what exactly is needed to manifest, and the exact commands + observed outputs you ran (build, test suite summary lines, demo on original, demo on changed).
Leave the worktree with the change APPLIED and the demo in place. Do not commit anything. Keep the change minimal (ideally 1-10 lines). Do not edit tests. If your first idea gets caught by the existing tests, try another. Report back a 5-line summary.""")
