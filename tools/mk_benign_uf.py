import subprocess
R='/repo/byods/ascent-byods-rels/src/'
edits=[
 ('trrel_union_find.rs',"self.elem_ids.get(elem).map(|id| self.get_dominant_id(*id))\n   }\n\n   pub(crate) fn elem_set_update","let raw = *self.elem_ids.get(elem)?;\n      Some(self.get_dominant_id(raw))\n   }\n\n   pub(crate) fn elem_set_update"),
 ('trrel_union_find.rs',"self.elem_ids.iter().flat_map(|(x, &x_set_id)| self.set_of_by_set_id(x, x_set_id).map(move |y| (x, y)))","self.elem_ids.iter().flat_map(|(x, x_set_id)| {\n         let ys = self.set_of_by_set_id(x, *x_set_id);\n         ys.map(move |y| (x, y))\n      })"),
 ('trrel_union_find.rs',"         let s_taken = std::mem::take(&mut self.sets[s]);\n         merge_sets(&mut self.sets[from], s_taken);\n         self.set_subsumptions.insert(s, from);","         self.set_subsumptions.insert(s, from);\n         let members = std::mem::take(&mut self.sets[s]);\n         let dest = &mut self.sets[from];\n         merge_sets(dest, members);"),
 ('trrel_union_find.rs',"      let dominant_sets: HashSet<usize> = (0..self.sets.len()).map(|s| self.get_dominant_id(s)).collect();","      let dominant_sets: HashSet<usize> = self.elem_ids.values().map(|&s| self.get_dominant_id(s)).collect();"),
 ('union_find.rs',"self.elem_ids.get(elem).map(|id| self.get_dominant_id(*id))","match self.elem_ids.get(elem) {\n         Some(&id) => Some(self.get_dominant_id(id)),\n         None => None,\n      }"),
 ('uf.rs',"         let grandparent_id = parent.parent.get();\n         if grandparent_id == parent_id {","         let grandparent_id = parent.parent.get();\n         let parent_is_root = grandparent_id == parent_id;\n         if parent_is_root {"),
 ('uf.rs',"let root_id = x_result.elem.union_by_rank(y_result.elem);","let xr = x_result.elem;\n      let yr = y_result.elem;\n      let root_id = xr.union_by_rank(yr);"),
 ('uf.rs',"            let id = id_cell.get();\n","            let stored = id_cell;\n            let id = stored.get();\n"),
 ('uf.rs',"      self.items.insert(item, Cell::new(id));\n      id","      let root = unsafe { self.elems.find(id) }.id;\n      self.items.insert(item, Cell::new(root));\n      id"),
]
for f,a,b in edits:
    s=open(R+f).read(); assert s.count(a)==1,(f,a[:30],s.count(a)); open(R+f,'w').write(s.replace(a,b))
d=subprocess.run(['git','-C','/repo','diff'],capture_output=True,text=True).stdout
open('/verif/selftest/benign_refactors_uf.diff','w').write(d)
subprocess.run(['git','-C','/repo','checkout','-q','--','.'])
