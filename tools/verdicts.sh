#!/bin/bash
# verdicts.sh <patch> <PROP...> : apply a patch to /repo, print one verdict line per check, always restore /repo
P=$(readlink -f "$1"); shift
cd /repo || exit 2
git apply --check "$P" 2>/dev/null || { echo "PATCH DOES NOT APPLY: $P"; exit 2; }
git apply "$P"
trap 'git -C /repo checkout -q -- . ' EXIT
for prop in "$@"; do
  (cd /verif && ./check $prop 2>/dev/null | grep -E "^C[0-9]+: |CHECK-BROKEN" | cut -c1-120)
done
