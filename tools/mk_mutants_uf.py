import subprocess,sys
R='/repo/byods/ascent-byods-rels/src/'
muts={
 'u1_elem_set_raw': ('trrel_union_find.rs', "self.elem_ids.get(elem).map(|id| self.get_dominant_id(*id))\n   }\n\n   pub(crate) fn elem_set_update", "self.elem_ids.get(elem).copied()\n   }\n\n   pub(crate) fn elem_set_update"),
 'u1_iter_all_raw': ('trrel_union_find.rs', "self.elem_ids.iter().flat_map(|(x, &x_set_id)| self.set_of_by_set_id(x, x_set_id).map(move |y| (x, y)))", "self.elem_ids.iter().flat_map(|(x, &x_set_id)| self.sets[x_set_id].iter().map(move |y| (x, y)))"),
 'u1_eqrel_update_raw': ('union_find.rs', "Some(self.get_dominant_id_update(*id))", "Some(*id)"),
 'u1_uf_item_raw': ('uf.rs', "let fr @ FindResult { id: root_id, .. } = unsafe { self.elems.find(id) };\n            id_cell.set(root_id);\n            Some(fr)", "let fr = FindResult { id, elem: unsafe { self.elems.get_unchecked(id) } };\n            Some(fr)"),
 'u2_rev_uses_fwd': ('trrel_union_find.rs', "         .reverse_set_connections\n         .get(&id)\n         .into_iter()", "         .set_connections\n         .get(&id)\n         .into_iter()"),
 'u3_no_forward': ('trrel_union_find.rs', "         self.set_subsumptions.insert(s, from);\n", ""),
 'u3_eqrel_reversed': ('union_find.rs', "self.set_subsumptions.insert(y_set, x_set);", "self.set_subsumptions.insert(x_set, y_set);"),
 'u4_same_id': ('uf.rs', "let y_result = self.elems.find(y);", "let y_result = self.elems.find(x);"),
 'u4_nonroot': ('uf.rs', "let root_id = x_result.elem.union_by_rank(y_result.elem);", "let root_id = x_result.elem.union_by_rank(self.elems.get_unchecked(y));"),
 'u5_wrong_guard': ('uf.rs', "if grandparent_id == parent_id {\n            return FindResult { id: parent_id, elem: parent };", "if grandparent_id == id {\n            return FindResult { id: parent_id, elem: parent };"),
 'u5_redirect_self': ('uf.rs', "elem.parent.set(grandparent_id);", "elem.parent.set(id);"),
}
for name,(f,a,b) in muts.items():
    s=open(R+f).read()
    assert s.count(a)==1,(name,s.count(a))
    open(R+f,'w').write(s.replace(a,b))
    d=subprocess.run(['git','-C','/repo','diff'],capture_output=True,text=True).stdout
    open('/verif/selftest/mutants/C18/%s.diff'%name,'w').write(d)
    subprocess.run(['git','-C','/repo','checkout','-q','--','.'])
print('ok')
