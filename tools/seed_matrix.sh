#!/bin/bash
# seed_matrix.sh [seed ids...] : for every seeded change, apply it to a scratch copy of /repo and run every claimed check there
# (own work dir, own evidence dir - /repo and <verif>/evidence are not touched). Prints one line per seed: the checks that fire.
V=$(cd "$(dirname "$0")/.." && pwd)
MX=${SEEDMX_DIR:-/tmp/seedmx}; mkdir -p $MX
SRC=${VP_RUN_REPO:-/repo}
rm -rf $MX/repo; rsync -a --exclude target --exclude .git $SRC/ $MX/repo/
[ -f $MX/repo/Cargo.lock ] || cp /repo/Cargo.lock $MX/repo/
cd $MX/repo && git init -q . 2>/dev/null && git add -A >/dev/null 2>&1 && git -c user.email=a@b -c user.name=x commit -qm base >/dev/null 2>&1
export ASCENT_REPO=$MX/repo VERIF_WORK=$MX/work VERIF_EVIDENCE_DIR=$MX/evidence
SEEDS=${@:-$(ls $V/seeded | grep -v -E "EXPECTED|RECONFIRM")}
# sharding: SHARD=i SHARDS=n runs every n-th item (seeds and selftest patches alike); the unchanged-tree line is printed by shard 0
SHARD=${SHARD:-0}; SHARDS=${SHARDS:-1}
pick() { i=0; for x in "$@"; do [ $((i % SHARDS)) -eq $SHARD ] && echo $x; i=$((i+1)); done; }
SEEDS=$(pick $SEEDS)
PROPS=$(python3 -c "import json;print(' '.join(c['property_id'] for c in json.load(open('$V/MANIFEST.json'))['checks']))")
[ $SHARD -eq 0 ] && echo "unchanged:$(for p in $PROPS; do out=$(cd $V && ./check $p 2>/dev/null); echo "$out" | grep -q "^VIOLATION\|CHECK-BROKEN" && echo -n " $p(ALARM)"; done) [must be empty]"
for s in $SEEDS; do
  cd $MX/repo && git checkout -q -- . && git apply $V/seeded/$s/patch.diff 2>/dev/null || { echo "$s: PATCH-DOES-NOT-APPLY"; continue; }
  fired=""
  for p in $PROPS; do
    out=$(cd $V && ./check $p 2>/dev/null)
    if echo "$out" | grep -q "^VIOLATION"; then
      rules=$(echo "$out" | grep -E "^\s+\S+ \[" | awk '{print $1}' | sort -u | tr '\n' ',' )
      fired="$fired $p(${rules%,})"
    elif echo "$out" | grep -q "CHECK-BROKEN"; then fired="$fired $p(BROKEN)"; fi
  done
  echo "$s:$fired"
done
# self-tests of the checks: reverts of the repairs and hand-made mutants must be detected, benign refactorings must stay quiet
if [ $# -eq 0 ]; then
for f in $(pick $V/selftest/reverts/*.diff $V/selftest/mutants/*.diff $V/selftest/mutants/C18/*.diff $V/selftest/benign_*.diff); do
  name=$(basename $f .diff)
  cd $MX/repo && git checkout -q -- . && git apply $f 2>/dev/null || { echo "selftest $name: PATCH-DOES-NOT-APPLY"; continue; }
  fired=""
  for p in $PROPS; do
    out=$(cd $V && ./check $p 2>/dev/null)
    if echo "$out" | grep -q "^VIOLATION"; then
      rules=$(echo "$out" | grep -E "^\s+\S+ \[" | awk '{print $1}' | sort -u | tr '\n' ',' )
      fired="$fired $p(${rules%,})"
    elif echo "$out" | grep -q "CHECK-BROKEN"; then fired="$fired $p(BROKEN)"; fi
  done
  case $name in benign_*) echo "selftest $name:$fired [must be empty]";; *) echo "selftest $name:$fired";; esac
done
fi
cd $MX/repo && git checkout -q -- .
rm -rf $MX/work/target-*
