#!/usr/bin/env python3
"""Regenerate /verif/MANIFEST.json from rules/props.py (claimed checks) + the not_applicable table below."""
import json, os, sys
V = os.path.dirname(os.path.dirname(os.path.abspath(__file__)))
sys.path.insert(0, os.path.join(V, 'rules'))
import props

NOT_APPLICABLE = {
    'C18': 'behaviour of TrRelUnionFind / UnionFind over arbitrary operation histories is a statement about stored values (ids, sets, '
           'subsumption chains) compared with a reference closure; no structural clause of it is both statically checkable and a '
           'necessary condition of the answers (DESIGN.md section 10)',
}
PENDING = 'check not built yet in this round (design in DESIGN.md section 4); not claimed until its rules exist'

allp = [json.loads(l)['id'] for l in open(os.path.join(V, 'properties.jsonl'))]
checks = []
for pid in allp:
    if pid not in props.PROPS:
        continue
    sp = props.PROPS[pid]
    checks.append({
        'property_id': pid,
        'quick_cmd': './check %s --tier quick' % pid,
        'thorough_cmd': './check %s --tier thorough' % pid,
        'evidence_file': 'evidence/%s.json' % pid,
        'replay_cmd_template': 'cat {path}',
        'engine': 'ascent-facts + rules',
        'level_claimed': {'category': sp['level'], 'text': sp['explanation'], 'design_ref': sp.get('design_ref', 'DESIGN.md section 4 (%s)' % pid)},
        'level_note': '; '.join(sp['assumptions']),
        'technique': sp.get('technique', 'static analysis: custom rules over the type-checked HIR (rustc_private fact extractor), no execution'),
    })
na = []
for pid in allp:
    if pid in props.PROPS:
        continue
    na.append({'property_id': pid, 'reason': NOT_APPLICABLE.get(pid, PENDING)})
m = {
    'version': 1,
    'setup_cmd': 'cd /verif/driver && CARGO_NET_OFFLINE=true cargo build --offline 2>&1 | tail -3',
    'hooks': {
        'guard': 'ascent_verif',
        'enable': 'none: static analysis needs no instrumentation; the guard name is reserved and unused, no hook commits exist',
        'baseline_off_cmd': 'cd /repo && cargo test --workspace --no-fail-fast --offline; rc=$?; git -C /repo checkout -- ascent_macro/examples/scratchpad.rs; exit $rc',
        'source_commits': [],
        'add_only': True,
    },
    'engines': [
        {'name': 'ascent-facts', 'path': 'driver/', 'serves_properties': [c['property_id'] for c in checks],
         'kind_free_text': 'rustc_private driver (nightly) run as RUSTC_WRAPPER under cargo check: dumps typed HIR with resolved callees of /repo and of the corpus as JSON facts'},
        {'name': 'rules', 'path': 'rules/', 'serves_properties': [c['property_id'] for c in checks],
         'kind_free_text': 'python3 rules over the facts: path-enumerating abstract interpretation, must-analyses on the tree, typestate, who-may-call, twin comparison'},
    ],
    'checks': checks,
    'notes': 'Every check re-extracts facts from /repo\'s working tree (cached by content hash under /verif/.work). Exit 0 = held on everything analysed; '
             'exit 1 + VIOLATION line = a construct violating a rule; exit 2 + CHECK-BROKEN = the checker lost an anchor / count fell below its floor '
             '(no verdict). known_findings.txt lists repaired defects (fixed:) and open findings.',
    'not_applicable': na,
}
json.dump(m, open(os.path.join(V, 'MANIFEST.json'), 'w'), indent=1)
print('claimed:', [c['property_id'] for c in checks])
