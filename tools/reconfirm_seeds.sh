#!/bin/bash
# reconfirm_seeds.sh [seed ids...] : on a scratch worktree of /repo's HEAD, for every seeded change: the demo passes without the
# change and fails with it (a seed whose demo passes with the change was superseded by a later repair of /repo).
V=$(cd "$(dirname "$0")/.." && pwd)
WT=${RECONF_DIR:-/tmp/reconf}/wt; rm -rf ${RECONF_DIR:-/tmp/reconf}; mkdir -p ${RECONF_DIR:-/tmp/reconf}
git -C /repo worktree add -f --detach $WT HEAD -q >/dev/null 2>&1 || exit 2
cp /repo/Cargo.lock $WT/
export CARGO_NET_OFFLINE=true CARGO_TARGET_DIR=${RECONF_DIR:-/tmp/reconf}/target
for s in ${@:-$(ls $V/seeded | grep -v EXPECTED)}; do
  d=$V/seeded/$s; [ -f $d/patch.diff ] || continue
  cd $WT && git checkout -q -- . && git clean -fdq -e Cargo.lock
  for h in $d/demo_*.diff; do [ -f "$h" ] && git apply "$h"; done
  if grep -q "ascent-byods-rels" $d/confirm.log 2>/dev/null && grep -q "pkg=ascent-byods-rels" $d/confirm.log; then PKG=ascent-byods-rels; DEMO=byods/ascent-byods-rels/examples/seed_demo.rs; else PKG=ascent; DEMO=ascent/examples/seed_demo.rs; fi
  mkdir -p $(dirname $DEMO); sed "s#/tmp/wt[0-9]*_C[0-9]*#$WT#g" $d/seed_demo.rs > $DEMO
  cargo run --offline -j 8 --example seed_demo -p $PKG >/dev/null 2>&1; o=$?
  if git apply $d/patch.diff 2>/dev/null; then
    cargo run --offline -j 8 --example seed_demo -p $PKG >/dev/null 2>&1; c=$?
  else c=NOAPPLY; fi
  echo "$s: demo_on_HEAD=$o demo_with_change=$c $([ "$o" = 0 ] && [ "$c" != 0 ] && [ "$c" != NOAPPLY ] && echo BREAKS || echo "NOT-A-BREAK-ON-HEAD")"
done
cd /; git -C /repo worktree remove --force $WT; rm -rf ${RECONF_DIR:-/tmp/reconf}
